/* Type parameterisation of the harness: compile with -DT_S, -DT_D, -DT_C or -DT_Z */
#ifndef SLUH_TYPES_H
#define SLUH_TYPES_H
#if defined(T_S)
# include "slu_sdefs.h"
  typedef float real_t; typedef float val_t;
# define NCOMP 1
# define TYCH "s"
# define FN(n) s##n
# define SPFN(n) sp_s##n
# define ILUFN(n) ilu_s##n
# define DTYPE SLU_S
# define RE(v) ((double)(v))
# define IM(v) 0.0
# define MKVAL(v,re,im) ((v) = (float)(re))
# define LACON2 slacon2_
# define CFORTRAN c_fortran_sgssv_
#elif defined(T_D)
# include "slu_ddefs.h"
  typedef double real_t; typedef double val_t;
# define NCOMP 1
# define TYCH "d"
# define FN(n) d##n
# define SPFN(n) sp_d##n
# define ILUFN(n) ilu_d##n
# define DTYPE SLU_D
# define RE(v) ((double)(v))
# define IM(v) 0.0
# define MKVAL(v,re,im) ((v) = (double)(re))
# define LACON2 dlacon2_
# define CFORTRAN c_fortran_dgssv_
#elif defined(T_C)
# include "slu_cdefs.h"
  typedef float real_t; typedef singlecomplex val_t;
# define NCOMP 2
# define TYCH "c"
# define FN(n) c##n
# define SPFN(n) sp_c##n
# define ILUFN(n) ilu_c##n
# define DTYPE SLU_C
# define RE(v) ((double)(v).r)
# define IM(v) ((double)(v).i)
# define MKVAL(v,re,im) ((v).r = (float)(re), (v).i = (float)(im))
# define LACON2 clacon2_
# define CFORTRAN c_fortran_cgssv_
#elif defined(T_Z)
# include "slu_zdefs.h"
  typedef double real_t; typedef doublecomplex val_t;
# define NCOMP 2
# define TYCH "z"
# define FN(n) z##n
# define SPFN(n) sp_z##n
# define ILUFN(n) ilu_z##n
# define DTYPE SLU_Z
# define RE(v) ((double)(v).r)
# define IM(v) ((double)(v).i)
# define MKVAL(v,re,im) ((v).r = (double)(re), (v).i = (double)(im))
# define LACON2 zlacon2_
# define CFORTRAN c_fortran_zgssv_
#else
# error "define one of T_S T_D T_C T_Z"
#endif
#endif
