/* sluh_<t>: scenario executor for SuperLU conformance checking.
 *
 *   sluh_d [--nofork] [--timeout S] script.txt trace.ndjson
 *
 * Reads a scenario script (produced by the orchestrator from TLC output or
 * from the seeded generators), executes each scenario in a forked child against
 * the library built from /repo's working tree, and appends one JSON line per
 * observation to the trace.  The trace carries the *projected abstract state*
 * after every public call (see DESIGN.md 4.4); all judgement is left to the
 * TLA+ trace specification.  The harness itself decides nothing.
 */
#define _GNU_SOURCE
#include "sluh_types.h"
#include "slu_vhooks.h"
#include <math.h>
#include <string.h>
#include <stdlib.h>
#include <stdint.h>
#include <unistd.h>
#include <signal.h>
#include <sys/wait.h>
#include <sys/mman.h>
#include <errno.h>

/* every piece of harness state is per thread when the multi-threaded harness (sluh_mt.c) includes this file */
#ifdef SLUH_MT
# define TLS __thread
#else
# define TLS
#endif
/* ------------------------------------------------------------------ tuning seam */
static TLS int g_tune[8] = {0, 20, 10, 200, 200, 100, 30, 10};
int sp_ienv(int ispec) { return (ispec >= 1 && ispec <= 7) ? g_tune[ispec] : -1; }

/* ------------------------------------------------------------------ JSON helpers */
static TLS FILE *OUT;
static void jnum(double v)
{
    /* exact small dyadic: [num, ld] (value = num * 2^-ld);  any other double: [sign, hi, mid, lo, ld] with
     * |value| = (hi*2^40 + mid*2^20 + lo) * 2^-ld (three limbs of the 53-bit significand; all 32-bit safe);
     * nan: [0,0,0,0,99999], +-inf: [+-1,0,0,0,88888] */
    if (v == 0) { fputs("[0,0]", OUT); return; }
    if (isnan(v)) { fputs("[0,0,0,0,99999]", OUT); return; }
    if (isinf(v)) { fprintf(OUT, "[%d,0,0,0,88888]", v > 0 ? 1 : -1); return; }
    int e; double m = frexp(v, &e);
    long long M = (long long)ldexp(m, 53); e -= 53;
    while ((M & 1) == 0) { M >>= 1; e++; }
    if (llabs(M) < (1LL << 30)) fprintf(OUT, "[%lld,%d]", M, -e);
    else { long long A = llabs(M); fprintf(OUT, "[%d,%lld,%lld,%lld,%d]", M < 0 ? -1 : 1, A >> 40, (A >> 20) & 0xFFFFF, A & 0xFFFFF, -e); }
}
static void jval(val_t v)
{
#if NCOMP == 1
    jnum(RE(v));
#else
    fputc('[', OUT); jnum(RE(v)); fputc(',', OUT); jnum(IM(v)); fputc(']', OUT);
#endif
}
static void jvals(const char *key, const val_t *v, long n)
{
    fprintf(OUT, ",\"%s\":[", key);
    for (long i = 0; i < n; i++) { if (i) fputc(',', OUT); jval(v[i]); }
    fputc(']', OUT);
}
static void jreals(const char *key, const real_t *v, long n)
{
    fprintf(OUT, ",\"%s\":[", key);
    for (long i = 0; i < n; i++) { if (i) fputc(',', OUT); jnum((double)v[i]); }
    fputc(']', OUT);
}
static void jints(const char *key, const int *v, long n)
{
    fprintf(OUT, ",\"%s\":[", key);
    for (long i = 0; i < n; i++) fprintf(OUT, "%s%d", i ? "," : "", v[i]);
    fputc(']', OUT);
}
static void jintts(const char *key, const int_t *v, long n)
{
    fprintf(OUT, ",\"%s\":[", key);
    for (long i = 0; i < n; i++) fprintf(OUT, "%s%lld", i ? "," : "", (long long)v[i]);
    fputc(']', OUT);
}
static uint64_t fnv(const void *p, size_t n)
{
    const unsigned char *s = p; uint64_t h = 1469598103934665603ULL;
    for (size_t i = 0; i < n; i++) { h ^= s[i]; h *= 1099511628211ULL; }
    return h;
}
static void jdig(const char *key, const void *p, size_t n) { fprintf(OUT, ",\"%s\":\"%016llx\"", key, (unsigned long long)(p ? fnv(p, n) : 0)); }

/* ------------------------------------------------------------------ context */
#define GUARD (1 << 16)
#define MAXN 512          /* largest matrix dimension a scenario may use */
typedef struct {
    int haveA, fmt /*0 NC, 1 NR*/, m, n; int_t nnz; val_t *a; int_t *idx, *ptr; SuperMatrix A;
    int haveB, nrhs, ldb, ldx; val_t *b, *x; SuperMatrix B, X;
    int haveL, haveU; SuperMatrix L, U;
    int *perm_c, *perm_r, *etree; real_t *R, *C; char equed[4];
    real_t *ferr, *berr; real_t rpg, rcond;
    GlobalLU_t Glu; mem_usage_t mu; SuperLUStat_t stat; int haveStat; superlu_options_t opt;
    unsigned char *work_raw; char *work; long lwork; int walign; int usework;
    long work_alloc;          /* bytes really allocated behind `work` (>= lwork when the caller passes a shorter length later) */
    uint64_t tail_dig;        /* digest of work[lwork, work_alloc) taken before a call */
    int_t info;
    int ilu;
    int lu_user;      /* the factors held live inside a caller workspace */
    long ledger_mark;
} ctx_t;
#define NCTX 4
static TLS ctx_t CT[NCTX]; static TLS ctx_t *cx;
static TLS char g_id[128];

/* the options as the caller passed them (the library must not write into the caller's options) */
static TLS superlu_options_t g_opt0;
static void opts_json(const superlu_options_t *o)
{
    double u = o->DiagPivotThresh;
    fprintf(OUT, ",\"opts\":{\"Fact\":%d,\"Equil\":%d,\"ColPerm\":%d,\"Trans\":%d,\"IterRefine\":%d,\"Sym\":%d,\"PivotGrowth\":%d,\"Cond\":%d,\"RowPerm\":%d,\"u\":",
            o->Fact, o->Equil, o->ColPerm, o->Trans, o->IterRefine, o->SymmetricMode, o->PivotGrowth, o->ConditionNumber, o->RowPerm);
    jnum(u);
    fprintf(OUT, ",\"DropRule\":%d,\"DropTol\":", o->ILU_DropRule); jnum(o->ILU_DropTol);
    fputs(",\"FillFactor\":", OUT); jnum(o->ILU_FillFactor);
    fputs(",\"FillTol\":", OUT); jnum(o->ILU_FillTol);
    fprintf(OUT, ",\"Norm\":%d,\"MILU\":%d}", o->ILU_Norm, o->ILU_MILU);
    fprintf(OUT, ",\"tune\":[%d,%d,%d,%d,%d,%d,%d]", g_tune[1], g_tune[2], g_tune[3], g_tune[4], g_tune[5], g_tune[6], g_tune[7]);
}
static void opts_json_same(const ctx_t *c)
{
    opts_json(&g_opt0);
    fprintf(OUT, ",\"opts_same\":%d", memcmp(&g_opt0, &c->opt, sizeof g_opt0) == 0);
}

/* A as logical triplets [row, col, value] whatever the storage orientation */
static void A_json(const char *key, const ctx_t *c)
{
    fprintf(OUT, ",\"%s\":[", key);
    int outer = c->fmt == 0 ? c->n : c->m; int first = 1;
    for (int j = 0; j < outer; j++)
        for (int_t q = c->ptr[j]; q < c->ptr[j + 1]; q++) {
            long r = c->fmt == 0 ? (long)c->idx[q] : j, col = c->fmt == 0 ? j : (long)c->idx[q];
            fprintf(OUT, "%s[%ld,%ld,", first ? "" : ",", r, col); jval(c->a[q]); fputc(']', OUT); first = 0;
        }
    fputc(']', OUT);
}
/* dense m x ncol block with leading dimension ld, as a list of columns (first m rows only) */
static void dense_json(const char *key, const val_t *v, int m, int ncol, int ld)
{
    fprintf(OUT, ",\"%s\":[", key);
    for (int j = 0; j < ncol; j++) {
        fputs(j ? ",[" : "[", OUT);
        for (int i = 0; i < m; i++) { if (i) fputc(',', OUT); jval(v[i + (long)j * ld]); }
        fputc(']', OUT);
    }
    fputc(']', OUT);
}
static uint64_t pad_digest(const val_t *v, int m, int ncol, int ld)
{
    uint64_t h = 7;
    for (int j = 0; j < ncol; j++) h = h * 31 + fnv(v + m + (long)j * ld, (size_t)(ld - m) * sizeof(val_t));
    return h;
}

static void LU_json(const ctx_t *c)
{
    if (c->haveL && c->L.Store) {
        const SCformat *S = c->L.Store; int n = c->L.ncol; int ns = S->nsuper;
        if (ns < -1 || ns >= n + 1) { fprintf(OUT, ",\"L\":{\"bad\":\"nsuper %d\"}", ns); }
        else {
            fprintf(OUT, ",\"L\":{\"nrow\":%d,\"ncol\":%d,\"nsuper\":%d,\"nnz\":%lld", c->L.nrow, c->L.ncol, ns, (long long)S->nnz);
            jints("sup_to_col", S->sup_to_col, ns + 2);
            jints("col_to_sup", S->col_to_sup, n);
            jintts("rowind_colptr", S->rowind_colptr, n + 1);
            jintts("nzval_colptr", S->nzval_colptr, n + 1);
            long nr = S->rowind_colptr[n], nv = S->nzval_colptr[n];
            if (nr < 0 || nr > 100000 || nv < 0 || nv > 1000000) fprintf(OUT, ",\"bad\":\"lengths %ld %ld\"", nr, nv);
            else {
                jintts("rowind", S->rowind, nr);
                jvals("nzval", (const val_t *)S->nzval, nv);
                fprintf(OUT, ",\"alloc\":{\"rowind\":%ld,\"nzval\":%ld,\"rowind_colptr\":%ld,\"nzval_colptr\":%ld,\"col_to_sup\":%ld,\"sup_to_col\":%ld}",
                        (long)(slu_v_block_size(S->rowind) / sizeof(int_t)), (long)(slu_v_block_size(S->nzval) / sizeof(val_t)),
                        (long)(slu_v_block_size(S->rowind_colptr) / sizeof(int_t)), (long)(slu_v_block_size(S->nzval_colptr) / sizeof(int_t)),
                        (long)(slu_v_block_size(S->col_to_sup) / sizeof(int)), (long)(slu_v_block_size(S->sup_to_col) / sizeof(int)));
                jdig("dig", S->nzval, nv * sizeof(val_t));
                jdig("digs", S->rowind, nr * sizeof(int_t));
            }
            fputc('}', OUT);
        }
    }
    if (c->haveU && c->U.Store) {
        const NCformat *S = c->U.Store; int n = c->U.ncol;
        fprintf(OUT, ",\"U\":{\"nrow\":%d,\"ncol\":%d,\"nnz\":%lld", c->U.nrow, c->U.ncol, (long long)S->nnz);
        jintts("colptr", S->colptr, n + 1);
        long nu = S->colptr[n];
        if (nu < 0 || nu > 1000000) fprintf(OUT, ",\"bad\":\"length %ld\"", nu);
        else {
            jintts("rowind", S->rowind, nu);
            jvals("nzval", (const val_t *)S->nzval, nu);
            fprintf(OUT, ",\"alloc\":{\"rowind\":%ld,\"nzval\":%ld,\"colptr\":%ld}",
                    (long)(slu_v_block_size(S->rowind) / sizeof(int_t)), (long)(slu_v_block_size(S->nzval) / sizeof(val_t)),
                    (long)(slu_v_block_size(S->colptr) / sizeof(int_t)));
            jdig("dig", S->nzval, nu * sizeof(val_t));
            jdig("digs", S->rowind, nu * sizeof(int_t));
        }
        fputc('}', OUT);
    }
}

static void ledger_json(const ctx_t *c)
{
    slu_v_ledger_t l; slu_v_get(&l);
    fprintf(OUT, ",\"ledger\":{\"live\":%ld,\"live_internal\":%ld,\"bad_frees\":%ld,\"redzone\":%ld,\"sweep\":%d,\"failed\":%ld,\"leaks\":",
            l.live_blocks, slu_v_live_since(c->ledger_mark, 1), l.bad_frees, l.redzone_hits, slu_v_sweep(), l.failed_allocs);
    slu_v_dump_live(OUT, c->ledger_mark);
    fputc('}', OUT);
}

/* ------------------------------------------------------------------ script reader */
static TLS char *LINE; static TLS size_t LCAP;
static TLS char **SC; static TLS int SCN, SCI;        /* lines of the current scenario */
static char *nextline(void) { return SCI < SCN ? SC[SCI++] : NULL; }
/* a script the parent handed over intact cannot become unreadable unless a library call of this scenario damaged the child's memory:
 * before the first call a parse error is an error of the scenario generator (98, fatal for the check), after it the scenario ends
 * abnormally (95, judged like any other abnormal end) */
static TLS int g_calls_done;
#define SCRIPT_ERR (g_calls_done ? 95 : 98)
static double rdnum(char **s) { char *e; double v = strtod(*s, &e); if (e == *s) { fprintf(stderr, "sluh: bad number at '%s' (%s)\n", *s, g_id); _exit(SCRIPT_ERR); } *s = e; return v; }
static long rdint(char **s) { char *e; long v = strtol(*s, &e, 10); if (e == *s) { fprintf(stderr, "sluh: bad int at '%s' (%s)\n", *s, g_id); _exit(SCRIPT_ERR); } *s = e; return v; }

static void free_A(ctx_t *c)
{
    if (!c->haveA) return;
    /* the three arrays are caller-owned: the caller (we) free them */
    SUPERLU_FREE(c->a); SUPERLU_FREE(c->idx); SUPERLU_FREE(c->ptr);
    Destroy_SuperMatrix_Store(&c->A); c->haveA = 0;
}
static void free_B(ctx_t *c)
{
    if (!c->haveB) return;
    SUPERLU_FREE(c->b); SUPERLU_FREE(c->x);
    Destroy_SuperMatrix_Store(&c->B); Destroy_SuperMatrix_Store(&c->X); c->haveB = 0;
}
static void own(const void *p) { if (p) slu_v_set_owner(p, 1); }

static void cmd_mat(char *s)
{
    ctx_t *c = cx; char f[8]; int m, n; long nnz; int k;
    if (sscanf(s, "%7s %d %d %ld%n", f, &m, &n, &nnz, &k) < 4) { fprintf(stderr, "bad mat\n"); _exit(SCRIPT_ERR); }
    free_A(c);
    c->fmt = strcmp(f, "NR") == 0; c->m = m; c->n = n; c->nnz = nnz;
    int outer = c->fmt == 0 ? n : m;
    c->ptr = (int_t *)SUPERLU_MALLOC((outer + 1) * sizeof(int_t)); c->idx = (int_t *)SUPERLU_MALLOC((nnz + 1) * sizeof(int_t));
    c->a = (val_t *)SUPERLU_MALLOC((nnz + 1) * sizeof(val_t));
    own(c->ptr); own(c->idx); own(c->a);
    char *p = nextline(); for (int i = 0; i <= outer; i++) c->ptr[i] = rdint(&p);
    p = nextline(); for (long i = 0; i < nnz; i++) c->idx[i] = rdint(&p);
    p = nextline(); for (long i = 0; i < nnz; i++) { double re = rdnum(&p), im = 0; if (NCOMP == 2) im = rdnum(&p); MKVAL(c->a[i], re, im); }
    if (c->fmt == 0) FN(Create_CompCol_Matrix)(&c->A, m, n, nnz, c->a, c->idx, c->ptr, SLU_NC, DTYPE, SLU_GE);
    else FN(Create_CompRow_Matrix)(&c->A, m, n, nnz, c->a, c->idx, c->ptr, SLU_NR, DTYPE, SLU_GE);
    own(c->A.Store);
    c->haveA = 1;
    if (!c->perm_c) {
        int mx = MAXN;
        c->perm_c = int32Malloc(mx); c->perm_r = int32Malloc(mx); c->etree = int32Malloc(mx);
        c->R = (real_t *)SUPERLU_MALLOC(mx * sizeof(real_t)); c->C = (real_t *)SUPERLU_MALLOC(mx * sizeof(real_t));
        c->ferr = (real_t *)SUPERLU_MALLOC(16 * sizeof(real_t)); c->berr = (real_t *)SUPERLU_MALLOC(16 * sizeof(real_t));
        own(c->perm_c); own(c->perm_r); own(c->etree); own(c->R); own(c->C); own(c->ferr); own(c->berr);
        for (int i = 0; i < mx; i++) { c->perm_c[i] = c->perm_r[i] = c->etree[i] = -7; c->R[i] = c->C[i] = (real_t)-77; }
        for (int i = 0; i < 16; i++) c->ferr[i] = c->berr[i] = (real_t)-77;
        c->equed[0] = 'N'; c->equed[1] = 0;
    }
    if (m > MAXN || n > MAXN) { fprintf(stderr, "sluh: matrix too large for this harness\n"); _exit(SCRIPT_ERR); }
}
static void cmd_newvals(char *s)
{
    ctx_t *c = cx; char *p = s;
    for (long i = 0; i < c->nnz; i++) { double re = rdnum(&p), im = 0; if (NCOMP == 2) im = rdnum(&p); MKVAL(c->a[i], re, im); }
}
/* caller action between calls: alter the value that was the pivot of (permuted) column jcol in the last factorization */
static void cmd_mutate(char *s)
{
    ctx_t *c = cx; char kind[32]; int jcol = 0; double f = 0;
    if (sscanf(s, "%31s %d %lf", kind, &jcol, &f) < 2) return;
    if (jcol < 0 || jcol >= c->n) jcol = 0;
    int pcol = -1, prow = -1;
    for (int j = 0; j < c->n; j++) if (c->perm_c[j] == jcol) pcol = j;
    for (int i = 0; i < c->m; i++) if (c->perm_r[i] == jcol) prow = i;
    if (pcol < 0 || prow < 0) return;
    /* factored matrix is A (NC) or A' (NR): entry (prow, pcol) of it */
    int outer = c->fmt == 0 ? pcol : prow, inner = c->fmt == 0 ? prow : pcol;
    if (c->fmt == 1) { outer = pcol; inner = prow; }   /* row storage: row `pcol` of A holds column pcol of A' */
    for (int_t q = c->ptr[outer]; q < c->ptr[outer + 1]; q++) if (c->idx[q] == inner) {
        if (!strcmp(kind, "zeropiv")) MKVAL(c->a[q], 0.0, 0.0);
        else MKVAL(c->a[q], RE(c->a[q]) * f, IM(c->a[q]) * f);
    }
}
static void cmd_rhs(char *s)
{
    /* rhs <nrhs> <ldb> [<ldx>] : B is m x nrhs with leading dimension ldb, X likewise with ldx (default ldb) */
    ctx_t *c = cx; int nrhs, ldb, ldx = -1;
    int got = sscanf(s, "%d %d %d", &nrhs, &ldb, &ldx);
    if (got < 2) { fprintf(stderr, "bad rhs\n"); _exit(SCRIPT_ERR); }
    if (got < 3 || ldx < 0) ldx = ldb;
    free_B(c);
    c->nrhs = nrhs; c->ldb = ldb; c->ldx = ldx; long tot = (long)ldb * nrhs, totx = (long)ldx * nrhs;
    c->b = (val_t *)SUPERLU_MALLOC((tot + 1) * sizeof(val_t)); c->x = (val_t *)SUPERLU_MALLOC((totx + 1) * sizeof(val_t));
    own(c->b); own(c->x);
    char *p = nextline();
    for (long i = 0; i < tot; i++) { double re = rdnum(&p), im = 0; if (NCOMP == 2) im = rdnum(&p); MKVAL(c->b[i], re, im); }
    for (long i = 0; i < totx; i++) MKVAL(c->x[i], -12345.0, 54321.0);
    FN(Create_Dense_Matrix)(&c->B, c->m, nrhs, c->b, ldb, SLU_DN, DTYPE, SLU_GE);
    FN(Create_Dense_Matrix)(&c->X, c->m, nrhs, c->x, ldx, SLU_DN, DTYPE, SLU_GE);
    own(c->B.Store); own(c->X.Store);
    c->haveB = 1;
}
static void cmd_opt(char *s)
{
    char k[64]; char v[64]; superlu_options_t *o = &cx->opt;
    if (sscanf(s, "%63s %63s", k, v) < 2) return;
    double d = strtod(v, NULL); int i = (int)d;
    if (!strcmp(k, "default")) { set_default_options(o); cx->ilu = 0; }
    else if (!strcmp(k, "iludefault")) { ilu_set_default_options(o); cx->ilu = 1; }
    else if (!strcmp(k, "Fact")) o->Fact = i; else if (!strcmp(k, "Equil")) o->Equil = i;
    else if (!strcmp(k, "ColPerm")) o->ColPerm = i; else if (!strcmp(k, "Trans")) o->Trans = i;
    else if (!strcmp(k, "IterRefine")) o->IterRefine = i; else if (!strcmp(k, "u")) o->DiagPivotThresh = d;
    else if (!strcmp(k, "Sym")) o->SymmetricMode = i; else if (!strcmp(k, "PivotGrowth")) o->PivotGrowth = i;
    else if (!strcmp(k, "Cond")) o->ConditionNumber = i; else if (!strcmp(k, "RowPerm")) o->RowPerm = i;
    else if (!strcmp(k, "DropRule")) o->ILU_DropRule = i; else if (!strcmp(k, "DropTol")) o->ILU_DropTol = d;
    else if (!strcmp(k, "FillFactor")) o->ILU_FillFactor = d; else if (!strcmp(k, "FillTol")) o->ILU_FillTol = d;
    else if (!strcmp(k, "Norm")) o->ILU_Norm = i; else if (!strcmp(k, "MILU")) o->ILU_MILU = i;
    else if (!strcmp(k, "PrintStat")) o->PrintStat = i;
    else if (!strcmp(k, "MILUDim")) o->ILU_MILU_Dim = d;
    else { fprintf(stderr, "sluh: unknown option %s\n", k); _exit(SCRIPT_ERR); }
}
static void cmd_work(char *s)
{
    ctx_t *c = cx; long lw; int al;
    if (sscanf(s, "%ld %d", &lw, &al) < 2) { fprintf(stderr, "bad work\n"); _exit(SCRIPT_ERR); }
    /* an earlier workspace may still hold factors of this context: it is never released inside a scenario */
    c->work_raw = 0;
    c->lwork = lw; c->walign = al; c->usework = 1; c->work_alloc = lw > 0 ? lw : 0;
    if (lw > 0) {
        size_t tot = (size_t)lw + 2 * GUARD + 64;
        c->work_raw = malloc(tot); memset(c->work_raw, 0xE7, tot);
        uintptr_t base = (uintptr_t)(c->work_raw + GUARD); base = (base + 15) & ~(uintptr_t)15; base += al;
        c->work = (char *)base;
        memset(c->work, 0xCB, lw);
    } else c->work = NULL;
}
static int guards_ok(const ctx_t *c, long *below, long *above)
{
    *below = *above = 0; if (!c->work_raw || c->lwork <= 0) return 1;
    for (unsigned char *p = c->work_raw; p < (unsigned char *)c->work; p++) if (*p != 0xE7) (*below)++;
    size_t tot = (size_t)c->lwork + 2 * GUARD + 64;
    for (unsigned char *p = (unsigned char *)c->work + c->lwork; p < c->work_raw + tot; p++) if (*p != 0xE7) (*above)++;
    return *below == 0 && *above == 0;
}

static void ensure_stat(ctx_t *c) { if (c->haveStat) StatFree(&c->stat); StatInit(&c->stat); c->haveStat = 1; own(c->stat.panel_histo); own(c->stat.utime); own(c->stat.ops); }

static void destroy_LU(ctx_t *c, int usermem)
{
    if (c->haveL) { if (usermem) Destroy_SuperMatrix_Store(&c->L); else Destroy_SuperNode_Matrix(&c->L); c->haveL = 0; }
    if (c->haveU) { if (usermem) Destroy_SuperMatrix_Store(&c->U); else Destroy_CompCol_Matrix(&c->U); c->haveU = 0; }
}

#define ENDLINE() do { fputs("}\n", OUT); slu_v_hold(0); } while (0)
static void common_head(const char *fn, const ctx_t *c)
{
    slu_v_hold(1);
    fprintf(OUT, "{\"e\":\"Ret\",\"id\":\"%s\",\"fn\":\"%s\",\"ty\":\"" TYCH "\",\"m\":%d,\"n\":%d,\"fmt\":\"%s\",\"itsz\":%d", g_id, fn, c->m, c->n, c->fmt ? "NR" : "NC", (int)sizeof(int_t));
}

/* snapshot of caller-visible inputs taken just before a call */
typedef struct { val_t *a0, *b0, *x0; uint64_t dptr, didx, dpadB, dpadX, dpc, dpr, det, dR, dC, dL, dU, dLs, dUs; char eq0; } snap_t;
static uint64_t Ldig(const ctx_t *c, int structure)
{
    if (!c->haveL || !c->L.Store) return 0; const SCformat *S = c->L.Store; int n = c->L.ncol;
    return structure ? fnv(S->rowind, S->rowind_colptr[n] * sizeof(int_t)) ^ fnv(S->sup_to_col, (S->nsuper + 2) * sizeof(int)) : fnv(S->nzval, S->nzval_colptr[n] * sizeof(val_t));
}
static uint64_t Udig(const ctx_t *c, int structure)
{
    if (!c->haveU || !c->U.Store) return 0; const NCformat *S = c->U.Store; int n = c->U.ncol;
    return structure ? fnv(S->rowind, S->colptr[n] * sizeof(int_t)) ^ fnv(S->colptr, (n + 1) * sizeof(int_t)) : fnv(S->nzval, S->colptr[n] * sizeof(val_t));
}
static void take_snap(const ctx_t *c, snap_t *s)
{
    memset(s, 0, sizeof *s);
    int outer = c->fmt == 0 ? c->n : c->m;
    s->a0 = malloc((c->nnz + 1) * sizeof(val_t)); memcpy(s->a0, c->a, c->nnz * sizeof(val_t));
    s->dptr = fnv(c->ptr, (outer + 1) * sizeof(int_t)); s->didx = fnv(c->idx, c->nnz * sizeof(int_t));
    if (c->haveB) {
        long tot = (long)c->ldb * c->nrhs, totx = (long)c->ldx * c->nrhs;
        s->b0 = malloc((tot + 1) * sizeof(val_t)); memcpy(s->b0, c->b, tot * sizeof(val_t));
        s->x0 = malloc((totx + 1) * sizeof(val_t)); memcpy(s->x0, c->x, totx * sizeof(val_t));
        s->dpadB = pad_digest(c->b, c->m, c->nrhs, c->ldb); s->dpadX = pad_digest(c->x, c->m, c->nrhs, c->ldx);
    }
    s->dpc = fnv(c->perm_c, MAXN * sizeof(int)); s->dpr = fnv(c->perm_r, MAXN * sizeof(int)); s->det = fnv(c->etree, MAXN * sizeof(int));
    s->dR = fnv(c->R, MAXN * sizeof(real_t)); s->dC = fnv(c->C, MAXN * sizeof(real_t)); s->eq0 = c->equed[0];
    s->dL = Ldig(c, 0); s->dU = Udig(c, 0); s->dLs = Ldig(c, 1); s->dUs = Udig(c, 1);
}
static void snap_json(const ctx_t *c, const snap_t *s)
{
    int outer = c->fmt == 0 ? c->n : c->m;
    /* A before: logical triplets using saved values */
    fputs(",\"A0\":[", OUT); int first = 1;
    for (int j = 0; j < outer; j++) for (int_t q = c->ptr[j]; q < c->ptr[j + 1]; q++) {
        long r = c->fmt == 0 ? (long)c->idx[q] : j, col = c->fmt == 0 ? j : (long)c->idx[q];
        fprintf(OUT, "%s[%ld,%ld,", first ? "" : ",", r, col); jval(s->a0[q]); fputc(']', OUT); first = 0;
    }
    fputc(']', OUT);
    jvals("A1v", c->a, c->nnz);       /* values after, same order as A0 */
    fprintf(OUT, ",\"Astruct_same\":%d", s->dptr == fnv(c->ptr, (outer + 1) * sizeof(int_t)) && s->didx == fnv(c->idx, c->nnz * sizeof(int_t)));
    if (c->haveB) {
        fprintf(OUT, ",\"nrhs\":%d,\"ldb\":%d", c->nrhs, c->ldb);
        dense_json("B0", s->b0, c->m, c->nrhs, c->ldb);
        dense_json("B1", c->b, c->m, c->nrhs, c->ldb);
        dense_json("X1", c->x, c->m, c->nrhs, c->ldx);
        fprintf(OUT, ",\"ldx\":%d,\"padB_same\":%d,\"padX_same\":%d", c->ldx, s->dpadB == pad_digest(c->b, c->m, c->nrhs, c->ldb), s->dpadX == pad_digest(c->x, c->m, c->nrhs, c->ldx));
        long tot = (long)c->ldb * c->nrhs, totx = (long)c->ldx * c->nrhs;
        fprintf(OUT, ",\"X_same\":%d,\"B_same\":%d", memcmp(s->x0, c->x, totx * sizeof(val_t)) == 0, memcmp(s->b0, c->b, tot * sizeof(val_t)) == 0);
    }
    fprintf(OUT, ",\"same\":{\"perm_c\":%d,\"perm_r\":%d,\"etree\":%d,\"R\":%d,\"C\":%d,\"equed\":%d,\"Lval\":%d,\"Uval\":%d,\"Lstr\":%d,\"Ustr\":%d}",
            s->dpc == fnv(c->perm_c, MAXN * sizeof(int)), s->dpr == fnv(c->perm_r, MAXN * sizeof(int)), s->det == fnv(c->etree, MAXN * sizeof(int)),
            s->dR == fnv(c->R, MAXN * sizeof(real_t)), s->dC == fnv(c->C, MAXN * sizeof(real_t)), s->eq0 == c->equed[0],
            s->dL == Ldig(c, 0), s->dU == Udig(c, 0), s->dLs == Ldig(c, 1), s->dUs == Udig(c, 1));
}
static void free_snap(snap_t *s) { free(s->a0); free(s->b0); free(s->x0); }

static uint64_t tail_digest(const ctx_t *c) { return (c->work && c->lwork >= 0 && c->work_alloc > c->lwork) ? fnv(c->work + c->lwork, (size_t)(c->work_alloc - c->lwork)) : 0; }
static void work_json(const ctx_t *c)
{
    if (!c->usework) return;
    long below, above; int ok = 1; below = above = 0;
    if (c->work_raw && c->work_alloc > 0) {
        for (unsigned char *p = c->work_raw; p < (unsigned char *)c->work; p++) if (*p != 0xE7) below++;
        size_t tot = (size_t)c->work_alloc + 2 * GUARD + 64;
        for (unsigned char *p = (unsigned char *)c->work + c->work_alloc; p < c->work_raw + tot; p++) if (*p != 0xE7) above++;
        ok = below == 0 && above == 0;
    }
    /* bytes of the buffer beyond the length the caller passed must be untouched too */
    int tail_ok = c->tail_dig == tail_digest(c);
    fprintf(OUT, ",\"work\":{\"lwork\":%ld,\"align\":%d,\"guards_ok\":%d,\"below\":%ld,\"above\":%ld,\"alloc\":%ld}", c->lwork, c->walign, ok && tail_ok, below, above + (tail_ok ? 0 : 1), c->work_alloc);
}

/* ------------------------------------------------------------------ calls */
static void call_gssv(void)
{
    ctx_t *c = cx; snap_t s; ensure_stat(c); take_snap(c, &s);
    c->ledger_mark = slu_v_mark();
    c->info = -9999;
    memcpy(&g_opt0, &c->opt, sizeof g_opt0);
    FN(gssv)(&c->opt, &c->A, c->perm_c, c->perm_r, &c->L, &c->U, &c->B, &c->stat, &c->info);
    /* L and U exist whenever the factor routine ran to completion (info in 0..n) */
    c->haveL = c->haveU = (c->info >= 0 && c->info <= c->n);
    c->lu_user = 0;
    if (c->haveL) { /* everything the caller was handed: mark as caller-owned */
        SCformat *S = c->L.Store; NCformat *Us = c->U.Store;
        own(S); own(S->rowind); own(S->rowind_colptr); own(S->nzval); own(S->nzval_colptr); own(S->col_to_sup); own(S->sup_to_col);
        own(Us); own(Us->rowind); own(Us->colptr); own(Us->nzval);
    }
    common_head("gssv", c); opts_json_same(c);
    fprintf(OUT, ",\"info\":%lld", (long long)c->info);
    snap_json(c, &s);
    jints("perm_c", c->perm_c, c->n); jints("perm_r", c->perm_r, c->m);
    LU_json(c);
    fprintf(OUT, ",\"expansions\":%d", c->stat.expansions);
    ledger_json(c);
    ENDLINE();
    free_snap(&s);
}

static void mark_LU_owned(ctx_t *c)
{
    if (c->haveL && c->L.Store) { SCformat *S = c->L.Store; own(S); own(S->rowind); own(S->rowind_colptr); own(S->nzval); own(S->nzval_colptr); own(S->col_to_sup); own(S->sup_to_col); }
    if (c->haveU && c->U.Store) { NCformat *Us = c->U.Store; own(Us); own(Us->rowind); own(Us->colptr); own(Us->nzval); }
}

static void call_gssvx(int ilu)
{
    ctx_t *c = cx; snap_t s; ensure_stat(c); take_snap(c, &s);
    c->ledger_mark = slu_v_mark();
    c->info = -9999; c->rpg = (real_t)-77; c->rcond = (real_t)-77; c->mu.for_lu = c->mu.total_needed = -77;
    int hadLU = c->haveL;
    c->tail_dig = tail_digest(c);
    void *work = c->usework ? (void *)c->work : NULL; int_t lwork = c->usework ? (int_t)c->lwork : 0;
    memcpy(&g_opt0, &c->opt, sizeof g_opt0);
    slu_v_phases_reset();
    if (ilu)
        FN(gsisx)(&c->opt, &c->A, c->perm_c, c->perm_r, c->etree, c->equed, c->R, c->C, &c->L, &c->U, work, lwork,
                  &c->B, &c->X, &c->rpg, &c->rcond, &c->Glu, &c->mu, &c->stat, &c->info);
    else
        FN(gssvx)(&c->opt, &c->A, c->perm_c, c->perm_r, c->etree, c->equed, c->R, c->C, &c->L, &c->U, work, lwork,
                  &c->B, &c->X, &c->rpg, &c->rcond, c->ferr, c->berr, &c->Glu, &c->mu, &c->stat, &c->info);
    int n = c->n;
    if (c->opt.Fact != FACTORED && lwork != -1) {
        /* a factorization was attempted: L,U exist iff it ran to completion */
        int done = (c->info >= 0 && c->info <= n + 1) && lwork != -1;
        if (c->info < 0) done = hadLU;     /* rejected call: whatever existed still exists */
        else if (c->opt.Fact != SamePattern_SameRowPerm) c->lu_user = done && lwork > 0;
        c->haveL = c->haveU = done;
    }
    mark_LU_owned(c);
    common_head(ilu ? "gsisx" : "gssvx", c); opts_json_same(c);
    slu_v_phases_json(OUT);
    fprintf(OUT, ",\"info\":%lld,\"equed\":\"%c\"", (long long)c->info, c->equed[0] >= 32 && c->equed[0] < 127 && c->equed[0] != '"' && c->equed[0] != '\\' ? c->equed[0] : '?');
    snap_json(c, &s);
    jints("perm_c", c->perm_c, n); jints("perm_r", c->perm_r, c->m); jints("etree", c->etree, n);
    jreals("R", c->R, c->m); jreals("C", c->C, n);
    fputs(",\"rpg\":", OUT); jnum(c->rpg); fputs(",\"rcond\":", OUT); jnum(c->rcond);
    { int ex = -99999; if (c->rcond > 0 && isfinite((double)c->rcond)) { frexp((double)c->rcond, &ex); ex -= 1; }   /* rcond in [2^ex, 2^(ex+1)) */
      fprintf(OUT, ",\"rcond_exp\":%d", ex); }
    if (!ilu && c->haveB) { jreals("ferr", c->ferr, c->nrhs); jreals("berr", c->berr, c->nrhs); }
    fputs(",\"mem\":[", OUT); jnum(c->mu.for_lu); fputc(',', OUT); jnum(c->mu.total_needed); fputc(']', OUT);
    LU_json(c);
    fprintf(OUT, ",\"expansions\":%d,\"steps\":%d", c->stat.expansions, c->stat.RefineSteps);
    work_json(c);
    ledger_json(c);
    ENDLINE();
    free_snap(&s);
}

/* "every exact size of the growable arrays relative to their capacity": the column boundaries of the factor arrays of the
 * factorization held in the context (cursor values of LUSUP, UCOL/USUB, LSUB at the start of every column / supernode).
 * A later incomplete factorization can be started with exactly that capacity (fillfrom: ILU_FillFactor is a real number and
 * the initial length of all four arrays is FillFactor * nnz(A)), so that the array is exactly full when that column begins. */
static TLS long g_cursor[3 * MAXN + 8]; static TLS int g_ncursor;
static int cmp_long(const void *a, const void *b) { long x = *(const long *)a, y = *(const long *)b; return x < y ? -1 : x > y; }
static void cmd_cursors(void)
{
    ctx_t *c = cx; g_ncursor = 0;
    if (!c->haveL || !c->L.Store || !c->U.Store) return;
    SCformat *Ls = c->L.Store; NCformat *Us = c->U.Store; long tmp[3 * MAXN + 8]; int k = 0;
    for (int j = 1; j <= c->n && k + 3 <= 3 * MAXN; j++) { tmp[k++] = (long)Ls->nzval_colptr[j]; tmp[k++] = (long)Us->colptr[j]; tmp[k++] = (long)Ls->rowind_colptr[j]; }
    qsort(tmp, k, sizeof(long), cmp_long);
    for (int i = 0; i < k; i++) if (tmp[i] >= c->nnz && (g_ncursor == 0 || g_cursor[g_ncursor - 1] != tmp[i])) g_cursor[g_ncursor++] = tmp[i];
    fprintf(OUT, "{\"e\":\"Mark\",\"id\":\"%s\",\"tag\":\"cursors_%d\"}\n", g_id, g_ncursor);
}

/* factor routine called the way FORTRAN/c_fortran_dgssv.c does: get_perm_c (unless MY_PERMC), sp_preorder, ?gstrf */
static void call_gstrf(int ilu)
{
    ctx_t *c = cx; snap_t s; ensure_stat(c); take_snap(c, &s);
    SuperMatrix AC;
    c->ledger_mark = slu_v_mark();
    if (c->opt.ColPerm != MY_PERMC && c->opt.Fact == DOFACT) get_perm_c(c->opt.ColPerm, &c->A, c->perm_c);
    sp_preorder(&c->opt, &c->A, c->perm_c, c->etree, &AC);
    c->tail_dig = tail_digest(c);
    void *work = c->usework ? (void *)c->work : NULL; int_t lwork = c->usework ? (int_t)c->lwork : 0;
    c->info = -9999;
    memcpy(&g_opt0, &c->opt, sizeof g_opt0);
    /* column order and tree are inputs of the factor routine (outputs of sp_preorder) */
    uint64_t pc_in = fnv(c->perm_c, MAXN * sizeof(int)), et_in = fnv(c->etree, MAXN * sizeof(int));
    if (ilu) FN(gsitrf)(&c->opt, &AC, sp_ienv(2), sp_ienv(1), c->etree, work, lwork, c->perm_c, c->perm_r, &c->L, &c->U, &c->Glu, &c->stat, &c->info);
    else FN(gstrf)(&c->opt, &AC, sp_ienv(2), sp_ienv(1), c->etree, work, lwork, c->perm_c, c->perm_r, &c->L, &c->U, &c->Glu, &c->stat, &c->info);
    Destroy_CompCol_Permuted(&AC);
    c->haveL = c->haveU = (c->info >= 0 && c->info <= c->n && lwork != -1);
    c->lu_user = c->haveL && lwork > 0;
    mark_LU_owned(c);
    common_head(ilu ? "gsitrf" : "gstrf", c); opts_json_same(c);
    fprintf(OUT, ",\"info\":%lld", (long long)c->info);
    snap_json(c, &s);
    jints("perm_c", c->perm_c, c->n); jints("perm_r", c->perm_r, c->m); jints("etree", c->etree, c->n);
    fprintf(OUT, ",\"order_in_same\":[%d,%d]", pc_in == fnv(c->perm_c, MAXN * sizeof(int)), et_in == fnv(c->etree, MAXN * sizeof(int)));
    LU_json(c);
    fprintf(OUT, ",\"expansions\":%d", c->stat.expansions);
    if (c->haveL) {
        mem_usage_t mu; mu.for_lu = mu.total_needed = -77;
        if (ilu) ILUFN(QuerySpace)(&c->L, &c->U, &mu); else FN(QuerySpace)(&c->L, &c->U, &mu);
        fputs(",\"mem\":[", OUT); jnum(mu.for_lu); fputc(',', OUT); jnum(mu.total_needed); fputc(']', OUT);
    }
    work_json(c);
    ledger_json(c);
    ENDLINE();
    free_snap(&s);
}

static void call_gstrs(char *s0)
{
    ctx_t *c = cx; snap_t s; int trans = atoi(s0); ensure_stat(c); take_snap(c, &s);
    c->ledger_mark = slu_v_mark();
    int info = -9999;
    FN(gstrs)((trans_t)trans, &c->L, &c->U, c->perm_c, c->perm_r, &c->B, &c->stat, &info);
    c->info = info;
    common_head("gstrs", c); opts_json(&c->opt);
    fprintf(OUT, ",\"trans\":%d,\"info\":%d", trans, info);
    snap_json(c, &s);
    jints("perm_c", c->perm_c, c->n); jints("perm_r", c->perm_r, c->m);
    LU_json(c);
    ledger_json(c);
    ENDLINE();
    free_snap(&s);
}

#include "sluh_extra.h"

/* ------------------------------------------------------------------ scenario executor */
static void reset_ctx(void)
{
    memset(CT, 0, sizeof CT); cx = &CT[0];
    for (int i = 0; i < NCTX; i++) { set_default_options(&CT[i].opt); CT[i].equed[0] = 'N'; }
    g_tune[1] = 20; g_tune[2] = 10; g_tune[3] = 200; g_tune[4] = 200; g_tune[5] = 100; g_tune[6] = 30; g_tune[7] = 10;
}

static void cmd_destroy(char *s)
{
    ctx_t *c = cx; char w[32] = ""; sscanf(s, "%31s", w);
    if (!strcmp(w, "LU")) destroy_LU(c, 0);
    else if (!strcmp(w, "LUuser")) destroy_LU(c, 1);
    else if (!strcmp(w, "LUauto")) destroy_LU(c, c->lu_user);
    else if (!strcmp(w, "A")) free_A(c);
    else if (!strcmp(w, "B")) free_B(c);
    else if (!strcmp(w, "stat")) { if (c->haveStat) { StatFree(&c->stat); c->haveStat = 0; } }
    else if (!strcmp(w, "all")) {
        destroy_LU(c, c->lu_user); free_A(c); free_B(c);
        if (c->haveStat) { StatFree(&c->stat); c->haveStat = 0; }
        if (c->perm_c) { SUPERLU_FREE(c->perm_c); SUPERLU_FREE(c->perm_r); SUPERLU_FREE(c->etree); SUPERLU_FREE(c->R); SUPERLU_FREE(c->C); SUPERLU_FREE(c->ferr); SUPERLU_FREE(c->berr); c->perm_c = 0; }
    }
}

static void run_scenario(void)
{
    reset_ctx(); g_calls_done = 0;
#ifndef SLUH_MT
    slu_v_reset();          /* the ledger is process-wide: not reset while other threads are running */
#endif
    slu_v_set_out(OUT); slu_v_set_events(0);
    char *ln;
    while ((ln = nextline())) {
        char cmd[32]; int k = 0;
        if (sscanf(ln, "%31s%n", cmd, &k) < 1) continue;
        char *rest = ln + k;
        if (!strcmp(cmd, "tune")) { for (int i = 1; i <= 7; i++) g_tune[i] = (int)rdint(&rest); }
        else if (!strcmp(cmd, "use")) cx = &CT[atoi(rest) % NCTX];
        else if (!strcmp(cmd, "mat")) cmd_mat(rest);
        else if (!strcmp(cmd, "newvals")) cmd_newvals(rest);
        else if (!strcmp(cmd, "mutate")) cmd_mutate(rest);
        else if (!strcmp(cmd, "mark")) { char tag[64] = ""; sscanf(rest, "%63s", tag); fprintf(OUT, "{\"e\":\"Mark\",\"id\":\"%s\",\"tag\":\"%s\"}\n", g_id, tag); }
        else if (!strcmp(cmd, "requireok")) { if (cx->info != 0) { fprintf(OUT, "{\"e\":\"Skip\",\"id\":\"%s\",\"why\":\"precondition of the next call not met (info=%lld)\"}\n", g_id, (long long)cx->info); fflush(OUT); return; } }
        else if (!strcmp(cmd, "rhs")) cmd_rhs(rest);
        else if (!strcmp(cmd, "opt")) cmd_opt(rest);
        else if (!strcmp(cmd, "permc")) { for (int i = 0; i < cx->n; i++) cx->perm_c[i] = (int)rdint(&rest); }
        else if (!strcmp(cmd, "permr")) { for (int i = 0; i < cx->m; i++) cx->perm_r[i] = (int)rdint(&rest); }
        else if (!strcmp(cmd, "work")) cmd_work(rest);
        else if (!strcmp(cmd, "nowork")) { cx->usework = 0; }
        else if (!strcmp(cmd, "cursors")) cmd_cursors();
        else if (!strcmp(cmd, "fillfrom")) { long k = rdint(&rest), delta = rdint(&rest); if (g_ncursor > 0 && cx->nnz > 0) { long L = g_cursor[k % g_ncursor] + delta; if (L < cx->nnz) L = cx->nnz; cx->opt.ILU_FillFactor = ((double)L + 0.5) / (double)cx->nnz; } }
        else if (!strcmp(cmd, "relwork")) { long lw = rdint(&rest); if (cx->work_raw && lw <= cx->work_alloc) { cx->lwork = lw; cx->usework = 1; } }   /* same buffer, shorter length */
        else if (!strcmp(cmd, "events")) slu_v_set_events(atoi(rest));
        else if (!strcmp(cmd, "failalloc")) { char sub[64]; int line; long kk; int st = 0; if (sscanf(rest, "%63s %d %ld %d", sub, &line, &kk, &st) >= 3) slu_v_fail(!strcmp(sub, "*") ? "" : sub, line, kk, st); }
        else if (!strcmp(cmd, "nofail")) slu_v_fail("", 0, 0, 0);
        else if (!strcmp(cmd, "destroy")) cmd_destroy(rest);
        else if (!strcmp(cmd, "ledger")) { fprintf(OUT, "{\"e\":\"Ledger\",\"id\":\"%s\"", g_id); cx->ledger_mark = 0; ledger_json(cx); ENDLINE(); }
        else if (!strcmp(cmd, "call")) {
            g_calls_done++;
            char fn[32]; int kk = 0; if (sscanf(rest, "%31s%n", fn, &kk) < 1) continue; char *a = rest + kk;
            if (!strcmp(fn, "gssv")) call_gssv();
            else if (!strcmp(fn, "gssvx")) call_gssvx(0);
            else if (!strcmp(fn, "gsisx")) call_gssvx(1);
            else if (!strcmp(fn, "gstrf")) call_gstrf(0);
            else if (!strcmp(fn, "gsitrf")) call_gstrf(1);
            else if (!strcmp(fn, "gstrs")) call_gstrs(a);
            else if (!extra_call(fn, a)) { fprintf(stderr, "sluh: unknown call %s\n", fn); _exit(SCRIPT_ERR); }
        }
        else if (!extra_cmd(cmd, rest)) { fprintf(stderr, "sluh: unknown command %s\n", cmd); _exit(SCRIPT_ERR); }
        fflush(OUT);
    }
}

#ifndef SLUH_MT
int main(int argc, char **argv)
{
    int nofork = 0, timeout = 20; int ai = 1;
    while (ai < argc && argv[ai][0] == '-') {
        if (!strcmp(argv[ai], "--nofork")) nofork = 1;
        else if (!strcmp(argv[ai], "--timeout") && ai + 1 < argc) timeout = atoi(argv[++ai]);
        ai++;
    }
    if (argc - ai < 2) { fprintf(stderr, "usage: %s [--nofork] [--timeout S] script trace\n", argv[0]); return 2; }
    static FILE *in; in = fopen(argv[ai], "r"); if (!in) { perror(argv[ai]); return 2; }
    OUT = fopen(argv[ai + 1], "a"); if (!OUT) { perror(argv[ai + 1]); return 2; }
    setvbuf(OUT, NULL, _IOLBF, 1 << 16);
    int cap = 0; ssize_t len;
    while ((len = getline(&LINE, &LCAP, in)) >= 0) {
        if (len && LINE[len - 1] == '\n') LINE[len - 1] = 0;
        if (strncmp(LINE, "begin", 5) == 0) {
            sscanf(LINE + 5, "%127s", g_id); SCN = 0;
            while ((len = getline(&LINE, &LCAP, in)) >= 0) {
                if (len && LINE[len - 1] == '\n') LINE[len - 1] = 0;
                if (strcmp(LINE, "end") == 0) break;
                if (SCN == cap) { cap = cap ? cap * 2 : 64; SC = realloc(SC, cap * sizeof(char *)); }
                SC[SCN++] = strdup(LINE);
            }
            SCI = 0;
            fprintf(OUT, "{\"e\":\"Reset\",\"id\":\"%s\",\"ty\":\"" TYCH "\"}\n", g_id); fflush(OUT);
            if (nofork) { run_scenario(); fprintf(OUT, "{\"e\":\"Done\",\"id\":\"%s\",\"status\":\"ok\",\"sig\":0,\"code\":0}\n", g_id); }
            else {
                pid_t pid = fork();
                if (pid == 0) {
                    close(fileno(in));      /* the library may call exit(): its flush of input streams must not move the parent's script position */
                    alarm(timeout); run_scenario(); fflush(OUT); _exit(0);
                }
                int st = 0; waitpid(pid, &st, 0);
                if (WIFSIGNALED(st) || WEXITSTATUS(st) != 0) fputc('\n', OUT);      /* the child may have died in the middle of a line */
                if (WIFSIGNALED(st)) fprintf(OUT, "{\"e\":\"Done\",\"id\":\"%s\",\"status\":\"%s\",\"sig\":%d,\"code\":0,\"pid\":%d}\n", g_id, WTERMSIG(st) == SIGALRM ? "timeout" : "crash", WTERMSIG(st), (int)pid);
                else if (WEXITSTATUS(st) == 98) { fprintf(stderr, "sluh: script error in %s\n", g_id); return 2; }
                else fprintf(OUT, "{\"e\":\"Done\",\"id\":\"%s\",\"status\":\"%s\",\"sig\":0,\"code\":%d,\"pid\":%d}\n", g_id, WEXITSTATUS(st) == 0 ? "ok" : (WEXITSTATUS(st) == 97 ? "abort" : (WEXITSTATUS(st) == 96 ? "sanitizer" : "exit")), WEXITSTATUS(st), (int)pid);
            }
            fflush(OUT);
            for (int i = 0; i < SCN; i++) free(SC[i]);
        }
    }
    fclose(OUT); fclose(in);
    return 0;
}
#endif /* !SLUH_MT */
