/* sluh_mt_<t>: K threads, each executing one scenario of the script against the same library.
 *
 *   sluh_mt_d [--schedule 0,1,1,0,...] [--quantum Q] [--free] script.txt trace_prefix
 *
 * Scenario k of the script runs in thread k and writes trace_prefix.k.ndjson.  With a schedule the threads are
 * serialised by a hand-off scheduler: a thread runs from one yield point (allocation seam, event hook) to the next
 * `quantum` times, then hands over to the thread the schedule names; after the schedule is exhausted the hand-off
 * continues round-robin, so the whole interleaving is deterministic.  With --free the threads run unconstrained
 * (for ThreadSanitizer).  The same scenarios are first executed one after the other in the main thread
 * (trace_prefix.solo.ndjson): every call's output must be bit-identical in both. */
#define SLUH_MT
#include "sluh.c"
#include <pthread.h>

#define MAXT 8
static int NT, QUANTUM = 1, FREE_RUN;
static int SCHED[4096], NSCHED;
static pthread_mutex_t smu = PTHREAD_MUTEX_INITIALIZER; static pthread_cond_t scv = PTHREAD_COND_INITIALIZER;
static long pos; static int cur = 0, left; static int finished[MAXT];
static __thread int my_tid = -1;
static char **TSC[MAXT]; static int TSCN[MAXT]; static char TID[MAXT][128];
static const char *PREFIX;

static int next_runnable(int want)
{
    for (int k = 0; k < NT; k++) { int t = (want + k) % NT; if (!finished[t]) return t; }
    return -1;
}
static void advance(void)
{
    /* called with smu held by the current thread when its quantum is used up or it finished */
    pos++;
    int want = pos < NSCHED ? SCHED[pos] % NT : (cur + 1) % NT;
    cur = next_runnable(want); left = QUANTUM;
    pthread_cond_broadcast(&scv);
}
static void yield_point(const char *where)
{
    (void)where;
    if (my_tid < 0 || FREE_RUN) return;
    pthread_mutex_lock(&smu);
    if (cur == my_tid && --left <= 0) advance();
    while (cur != my_tid && cur >= 0) pthread_cond_wait(&scv, &smu);
    pthread_mutex_unlock(&smu);
}
static void *worker(void *arg)
{
    int t = (int)(long)arg; my_tid = t;
    char path[600]; snprintf(path, sizeof path, "%s.%d.ndjson", PREFIX, t);
    OUT = fopen(path, "w"); setvbuf(OUT, NULL, _IOLBF, 1 << 16);
    strcpy(g_id, TID[t]); SC = TSC[t]; SCN = TSCN[t]; SCI = 0;
    fprintf(OUT, "{\"e\":\"Reset\",\"id\":\"%s\",\"ty\":\"" TYCH "\"}\n{\"e\":\"Mode\",\"mode\":\"mt\",\"thread\":%d}\n", g_id, t);
    if (!FREE_RUN) { pthread_mutex_lock(&smu); while (cur != t && cur >= 0) pthread_cond_wait(&scv, &smu); pthread_mutex_unlock(&smu); }
    run_scenario();
    fprintf(OUT, "{\"e\":\"Done\",\"id\":\"%s\",\"status\":\"ok\",\"sig\":0,\"code\":0,\"pid\":0}\n", g_id);
    fclose(OUT); OUT = NULL; slu_v_set_out(NULL);
    if (!FREE_RUN) { pthread_mutex_lock(&smu); finished[t] = 1; if (cur == t) advance(); pthread_mutex_unlock(&smu); }
    my_tid = -1;
    return NULL;
}
int main(int argc, char **argv)
{
    int ai = 1;
    while (ai < argc && argv[ai][0] == '-') {
        if (!strcmp(argv[ai], "--schedule") && ai + 1 < argc) { char *p = argv[++ai]; while (*p && NSCHED < 4096) { SCHED[NSCHED++] = (int)strtol(p, &p, 10); if (*p == ',') p++; } }
        else if (!strcmp(argv[ai], "--quantum") && ai + 1 < argc) QUANTUM = atoi(argv[++ai]);
        else if (!strcmp(argv[ai], "--free")) FREE_RUN = 1;
        ai++;
    }
    if (argc - ai < 2) { fprintf(stderr, "usage: %s [--schedule s] [--quantum q] [--free] script prefix\n", argv[0]); return 2; }
    FILE *in = fopen(argv[ai], "r"); if (!in) { perror(argv[ai]); return 2; }
    PREFIX = argv[ai + 1];
    char *line = NULL; size_t cap = 0; ssize_t len; int capn[MAXT] = {0};
    while ((len = getline(&line, &cap, in)) >= 0 && NT < MAXT) {
        if (len && line[len - 1] == '\n') line[len - 1] = 0;
        if (strncmp(line, "begin", 5) == 0) {
            sscanf(line + 5, "%127s", TID[NT]);
            while ((len = getline(&line, &cap, in)) >= 0) {
                if (len && line[len - 1] == '\n') line[len - 1] = 0;
                if (strcmp(line, "end") == 0) break;
                if (TSCN[NT] == capn[NT]) { capn[NT] = capn[NT] ? capn[NT] * 2 : 64; TSC[NT] = realloc(TSC[NT], capn[NT] * sizeof(char *)); }
                TSC[NT][TSCN[NT]++] = strdup(line);
            }
            NT++;
        }
    }
    fclose(in);
    /* 1. every scenario alone, one after the other */
    {
        char path[600]; snprintf(path, sizeof path, "%s.solo.ndjson", PREFIX);
        OUT = fopen(path, "w"); setvbuf(OUT, NULL, _IOLBF, 1 << 16);
        for (int t = 0; t < NT; t++) {
            strcpy(g_id, TID[t]); SC = TSC[t]; SCN = TSCN[t]; SCI = 0;
            fprintf(OUT, "{\"e\":\"Reset\",\"id\":\"%s\",\"ty\":\"" TYCH "\"}\n{\"e\":\"Mode\",\"mode\":\"solo\",\"thread\":%d}\n", g_id, t);
            run_scenario();
            fprintf(OUT, "{\"e\":\"Done\",\"id\":\"%s\",\"status\":\"ok\",\"sig\":0,\"code\":0,\"pid\":0}\n", g_id);
        }
        fclose(OUT); OUT = NULL; slu_v_set_out(NULL);
    }
    /* 2. the same scenarios concurrently */
    if (!FREE_RUN) slu_v_yield = yield_point;
    cur = NSCHED ? next_runnable(SCHED[0] % NT) : 0; left = QUANTUM; pos = 0;
    pthread_t th[MAXT];
    for (int t = 0; t < NT; t++) pthread_create(&th[t], NULL, worker, (void *)(long)t);
    for (int t = 0; t < NT; t++) pthread_join(th[t], NULL);
    return 0;
}
