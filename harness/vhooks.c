/* Allocation ledger, red zones, failure injection and event sink behind the
 * USER_MALLOC / USER_FREE / USER_ABORT seam of slu_util.h (see slu_vhooks.h). */
#include "slu_vhooks.h"
#include <stdlib.h>
#include <string.h>
#include <stdarg.h>
#include <pthread.h>
#include <unistd.h>

#define RZ 32                  /* bytes of guard on each side (keeps 16-byte alignment) */
#define RZ_BYTE 0xFB
#define POISON_BYTE 0xCB
#define FREED_BYTE 0xDD

typedef struct {
    void *p; size_t size; long id; const char *file; int line; int owner; int state; /* 0 empty, 1 live, 2 freed */
} ent_t;

static pthread_mutex_t mu = PTHREAD_MUTEX_INITIALIZER;
static ent_t *tab; static size_t cap, cnt;
static long next_id;
static slu_v_ledger_t led;
static int poison_on = 1;
static char f_sub[128]; static int f_line; static long f_k, f_seen; static int f_sticky, f_on;
static __thread FILE *t_out;
static __thread int t_in_expand;      /* between the ExpandBegin and Expand events of ?expand (growth request in progress) */
static __thread long t_seq;
#define MAX_EVENTS 4000   /* per scenario: a livelock in the library must not flood the trace */
static __thread int ev_mask = 0;     /* per thread: each scenario chooses its own event classes */
static size_t quarantined;
void (*slu_v_yield)(const char *where) = 0;

static size_t hidx(const void *p, size_t c) { return (((size_t)p) >> 4) * 0x9E3779B97F4A7C15ULL % c; }
static ent_t *find(const void *p)
{
    if (!cap) return 0;
    size_t i = hidx(p, cap);
    for (size_t k = 0; k < cap; k++, i = (i + 1) % cap) {
        if (tab[i].state == 0) return 0;
        if (tab[i].p == p) return &tab[i];
    }
    return 0;
}
static void grow(void)
{
    size_t nc = cap ? cap * 2 : 4096; ent_t *nt = calloc(nc, sizeof(ent_t));
    for (size_t i = 0; i < cap; i++) if (tab[i].state) {
        size_t j = hidx(tab[i].p, nc); while (nt[j].state) j = (j + 1) % nc; nt[j] = tab[i];
    }
    free(tab); tab = nt; cap = nc;
}
static ent_t *insert(void *p)
{
    ent_t *e = find(p);
    if (e) return e;                 /* address reused after a real free */
    if ((cnt + 1) * 2 > cap) grow();
    size_t i = hidx(p, cap); while (tab[i].state) i = (i + 1) % cap;
    cnt++; tab[i].p = p; return &tab[i];
}
static int rz_damaged(const ent_t *e)
{
#ifdef SLU_V_PASSTHRU
    (void)e; return 0;
#else
    const unsigned char *a = (const unsigned char *)e->p - RZ, *b = (const unsigned char *)e->p + e->size;
    for (int i = 0; i < RZ; i++) if (a[i] != RZ_BYTE || b[i] != RZ_BYTE) return 1;
    return 0;
#endif
}

void *slu_vmalloc(size_t size, const char *file, int line)
{
    if (slu_v_yield) slu_v_yield("malloc");
    pthread_mutex_lock(&mu);
    if (f_on && (!f_sub[0] || (f_sub[0] == '@' ? t_in_expand : (file && strstr(file, f_sub) != NULL))) && (!f_line || f_line == line)) {
        f_seen++;
        if (f_seen == f_k || (f_sticky && f_seen > f_k)) {
            led.failed_allocs++;
            pthread_mutex_unlock(&mu);
            slu_vhook("A:AllocFail", "\"site\":\"%s:%d\",\"size\":%ld,\"k\":%ld", file ? file : "?", line, (long)size, f_seen);
            return NULL;
        }
    }
    pthread_mutex_unlock(&mu);
#ifdef SLU_V_PASSTHRU
    unsigned char *p = malloc(size ? size : 1);
    if (!p) return NULL;
#else
    unsigned char *raw = malloc(size + 2 * RZ);
    if (!raw) return NULL;
    memset(raw, RZ_BYTE, RZ); memset(raw + RZ + size, RZ_BYTE, RZ);
    unsigned char *p = raw + RZ;
    if (poison_on) memset(p, POISON_BYTE, size);
#endif
    pthread_mutex_lock(&mu);
    ent_t *e = insert(p);
    e->size = size; e->id = ++next_id; e->file = file; e->line = line; e->owner = 0; e->state = 1;
    led.live_blocks++; led.live_bytes += (long)size; led.total_allocs++;
    pthread_mutex_unlock(&mu);
    return p;
}

void slu_vfree(void *p, const char *file, int line)
{
    pthread_mutex_lock(&mu);
    if (!p) { led.null_frees++; pthread_mutex_unlock(&mu); return; }    /* free(NULL) is a no-op in the production allocator */
    ent_t *e = find(p);
    if (!e || e->state != 1) {
        led.bad_frees++;
        pthread_mutex_unlock(&mu);
        slu_vhook("A:BadFree", "\"site\":\"%s:%d\",\"kind\":\"%s\"", file ? file : "?", line, !p ? "null" : (e ? "double" : "unknown"));
        return;
    }
    int dmg = rz_damaged(e);
    if (dmg) led.redzone_hits++;
    e->state = 2; led.live_blocks--; led.live_bytes -= (long)e->size; led.total_frees++;
    size_t sz = e->size; const char *af = e->file; int al = e->line;
    pthread_mutex_unlock(&mu);
    if (dmg) slu_vhook("A:RedZone", "\"alloc_site\":\"%s:%d\",\"size\":%ld", af ? af : "?", al, (long)sz);
#ifdef SLU_V_PASSTHRU
    free(p);
#else
    memset(p, FREED_BYTE, sz);
    if (quarantined < ((size_t)256 << 20)) quarantined += sz + 2 * RZ;   /* keep: later use shows up as 0xDD garbage */
    else free((unsigned char *)p - RZ);
#endif
}

void slu_vabort(const char *msg)
{
    char buf[300]; size_t j = 0;
    for (const char *s = msg; *s && j < sizeof buf - 2; s++) { if (*s == '"' || *s == '\\' || *s == '\n') buf[j++] = ' '; else buf[j++] = *s; }
    buf[j] = 0;
    slu_vhook("A:Abort", "\"msg\":\"%s\"", buf);
    if (t_out) fflush(t_out);
    _exit(97);
}

/* While the harness is in the middle of writing a trace line (it may call library routines that free blocks between
 * two fields), events are parked and written after the line is complete. */
static __thread int t_hold; static __thread char t_pend[1 << 15]; static __thread int t_npend;
static void emit(const char *buf, int n)
{
    if (t_hold) { if (t_npend + n <= (int)sizeof t_pend) { memcpy(t_pend + t_npend, buf, n); t_npend += n; } return; }
    fwrite(buf, 1, n, t_out);
}
void slu_v_hold(int on)
{
    t_hold = on;
    if (!on && t_npend) { if (t_out) fwrite(t_pend, 1, t_npend, t_out); t_npend = 0; }
}
#define MAX_PHASES 48
static __thread char t_phase[MAX_PHASES][16]; static __thread int t_nphase;
void slu_v_phases_reset(void) { t_nphase = 0; }
void slu_v_phases_json(FILE *f)
{
    fputs(",\"phases\":[", f);
    for (int i = 0; i < t_nphase && i < MAX_PHASES; i++) fprintf(f, "%s\"%s\"", i ? "," : "", t_phase[i]);
    if (t_nphase > MAX_PHASES) fputs(",\"Overflow\"", f);
    fputc(']', f);
}
void slu_vhook(const char *event, const char *fmt, ...)
{
    if (slu_v_yield && event[0] != 'A') slu_v_yield(event + 2);
    if (event[0] == 'P') {
        /* phase events of the drivers (spec/SluDriver.tla): collected per call, the harness reports them with the return event */
        char body[256]; va_list ap; va_start(ap, fmt); vsnprintf(body, sizeof body, fmt ? fmt : "", ap); va_end(ap);
        const char *q = strstr(body, "\"name\":\"");
        if (q && t_nphase < MAX_PHASES) { q += 8; size_t k = 0; while (q[k] && q[k] != '"' && k < sizeof t_phase[0] - 1) { t_phase[t_nphase][k] = q[k]; k++; } t_phase[t_nphase][k] = 0; t_nphase++; }
        else if (q) t_nphase = MAX_PHASES + 1;          /* overflow: reported as such */
    }
    if (!t_out) return;
    int bit = event[0] == 'M' ? 1 : event[0] == 'C' ? 2 : event[0] == 'P' ? 4 : event[0] == 'R' ? 8 : 0;
    if (bit && !(ev_mask & bit)) return;
    if (t_seq >= MAX_EVENTS) { if (t_seq == MAX_EVENTS) { t_seq++; fputs("{\"e\":\"EventsTruncated\"}\n", t_out); } return; }
    char buf[4096]; int n = snprintf(buf, sizeof buf, "{\"e\":\"%s\",\"seq\":%ld", event + 2, ++t_seq);
    if (fmt && *fmt) {
        buf[n++] = ',';
        va_list ap; va_start(ap, fmt); n += vsnprintf(buf + n, sizeof buf - n - 3, fmt, ap); va_end(ap);
        if (n > (int)sizeof buf - 3) n = sizeof buf - 3;
    }
    buf[n++] = '}'; buf[n++] = '\n';
    emit(buf, n);
}

/* exact JSON token of a double (same encoding as the harness: [num, ld] or [sign, hi, mid, lo, ld]) */
#include <math.h>
const char *slu_v_tok(double v)
{
    static __thread char bufs[4][64]; static __thread int k; char *b = bufs[k = (k + 1) & 3];
    if (v == 0) return "[0,0]";
    if (isnan(v)) return "[0,0,0,0,99999]";
    if (isinf(v)) return v > 0 ? "[1,0,0,0,88888]" : "[-1,0,0,0,88888]";
    int e; double m = frexp(v, &e); long long M = (long long)ldexp(m, 53); e -= 53;
    while ((M & 1) == 0) { M >>= 1; e++; }
    if (llabs(M) < (1LL << 30)) snprintf(b, 64, "[%lld,%d]", M, -e);
    else { long long A = llabs(M); snprintf(b, 64, "[%d,%lld,%lld,%lld,%d]", M < 0 ? -1 : 1, A >> 40, (A >> 20) & 0xFFFFF, A & 0xFFFFF, -e); }
    return b;
}

/* state printer for the memory / column hooks: standard fields of the allocator state */
#include "slu_ddefs.h"
void slu_vhook_mem(const char *event, const GlobalLU_t *Glu, const char *fmt, ...)
{
    if (slu_v_yield) slu_v_yield(event + 2);
    if (event[0] == 'M') t_in_expand = strcmp(event, "M:ExpandBegin") == 0;
    if (event[0] == 'P') {
        /* phase events of the drivers (spec/SluDriver.tla): collected per call, the harness reports them with the return event */
        char body[256]; va_list ap; va_start(ap, fmt); vsnprintf(body, sizeof body, fmt ? fmt : "", ap); va_end(ap);
        const char *q = strstr(body, "\"name\":\"");
        if (q && t_nphase < MAX_PHASES) { q += 8; size_t k = 0; while (q[k] && q[k] != '"' && k < sizeof t_phase[0] - 1) { t_phase[t_nphase][k] = q[k]; k++; } t_phase[t_nphase][k] = 0; t_nphase++; }
        else if (q) t_nphase = MAX_PHASES + 1;          /* overflow: reported as such */
    }
    if (!t_out) return;
    int bit = event[0] == 'M' ? 1 : event[0] == 'C' ? 2 : event[0] == 'P' ? 4 : event[0] == 'R' ? 8 : 0;
    if (bit && !(ev_mask & bit)) return;
    if (t_seq >= MAX_EVENTS) { if (t_seq == MAX_EVENTS) { t_seq++; fputs("{\"e\":\"EventsTruncated\"}\n", t_out); } return; }
    char buf[4096]; int n = snprintf(buf, sizeof buf, "{\"e\":\"%s\",\"seq\":%ld,", event + 2, ++t_seq);
    va_list ap; va_start(ap, fmt); n += vsnprintf(buf + n, sizeof buf - n - 600, fmt, ap); va_end(ap);
    int user = Glu->MemModel == USER;
    n += snprintf(buf + n, sizeof buf - n - 300, ",\"model\":%d,\"numexp\":%d,\"nz\":[%lld,%lld,%lld]", user, Glu->num_expansions,
                  (long long)Glu->nzlumax, (long long)Glu->nzumax, (long long)Glu->nzlmax);
    if (user)
        n += snprintf(buf + n, sizeof buf - n - 200, ",\"st\":[%lld,%lld,%lld,%lld],\"al\":%d", (long long)Glu->stack.size, (long long)Glu->stack.used,
                      (long long)Glu->stack.top1, (long long)Glu->stack.top2, (int)((size_t)Glu->stack.array & 7));
    if (Glu->expanders) {
        n += snprintf(buf + n, sizeof buf - n - 100, ",\"ex\":[");
        for (int t = 0; t < 4; t++) {
            long long off = Glu->expanders[t].mem ? (user ? (long long)((char *)Glu->expanders[t].mem - (char *)Glu->stack.array) : 1) : -1;
            long long sz = (long long)Glu->expanders[t].size;
            if (!user) off = Glu->expanders[t].mem != NULL;
            /* before the first expansion the table is uninitialised: report a marker, not garbage */
            if (off > (1LL << 30) || off < -(1LL << 30) || sz > (1LL << 30) || sz < 0) { off = -999999; sz = -999999; }
            n += snprintf(buf + n, sizeof buf - n - 40, "%s[%lld,%lld]", t ? "," : "", off, sz);
        }
        n += snprintf(buf + n, sizeof buf - n - 10, "]");
    }
    buf[n++] = '}'; buf[n++] = '\n';
    emit(buf, n);
}

void slu_v_reset(void)
{
    pthread_mutex_lock(&mu);
    memset(&led, 0, sizeof led); f_on = 0; f_seen = 0;
    pthread_mutex_unlock(&mu);
    t_seq = 0;
}
void slu_v_get(slu_v_ledger_t *o) { pthread_mutex_lock(&mu); *o = led; pthread_mutex_unlock(&mu); }
long slu_v_mark(void) { long r; pthread_mutex_lock(&mu); r = next_id; pthread_mutex_unlock(&mu); return r; }
long slu_v_live_since(long serial, int internal_only)
{
    long c = 0; pthread_mutex_lock(&mu);
    for (size_t i = 0; i < cap; i++) if (tab[i].state == 1 && tab[i].id > serial && !(internal_only && tab[i].owner)) c++;
    pthread_mutex_unlock(&mu); return c;
}
int slu_v_sweep(void)
{
    int c = 0; pthread_mutex_lock(&mu);
    for (size_t i = 0; i < cap; i++) if (tab[i].state == 1 && rz_damaged(&tab[i])) c++;
    pthread_mutex_unlock(&mu); return c;
}
size_t slu_v_block_size(const void *p)
{
    size_t s = 0; pthread_mutex_lock(&mu); ent_t *e = find(p); if (e && e->state == 1) s = e->size; pthread_mutex_unlock(&mu); return s;
}
void slu_v_set_owner(const void *p, int owner)
{
    pthread_mutex_lock(&mu); ent_t *e = find(p); if (e && e->state == 1) e->owner = owner; pthread_mutex_unlock(&mu);
}
void slu_v_dump_live(FILE *f, long serial)
{
    int first = 1; fputc('[', f); pthread_mutex_lock(&mu);
    for (size_t i = 0; i < cap; i++) if (tab[i].state == 1 && tab[i].id > serial && !tab[i].owner) {
        const char *b = tab[i].file ? strrchr(tab[i].file, '/') : 0; b = b ? b + 1 : (tab[i].file ? tab[i].file : "?");
        fprintf(f, "%s{\"site\":\"%s:%d\",\"size\":%ld}", first ? "" : ",", b, tab[i].line, (long)tab[i].size); first = 0;
    }
    pthread_mutex_unlock(&mu); fputc(']', f);
}
void slu_v_fail(const char *substr, int line, long k, int sticky)
{
    pthread_mutex_lock(&mu);
    f_sub[0] = 0; if (substr) { strncpy(f_sub, substr, sizeof f_sub - 1); f_sub[sizeof f_sub - 1] = 0; }
    f_line = line; f_k = k; f_sticky = sticky; f_seen = 0; f_on = k > 0;
    pthread_mutex_unlock(&mu);
}
long slu_v_matching_allocs(void) { long r; pthread_mutex_lock(&mu); r = f_seen; pthread_mutex_unlock(&mu); return r; }
void slu_v_set_out(FILE *f) { t_out = f; t_seq = 0; }
FILE *slu_v_get_out(void) { return t_out; }
void slu_v_set_events(int m) { ev_mask = m; }
int slu_v_events(void) { return ev_mask; }
void slu_v_set_poison(int on) { poison_on = on; }
