/* Verification seam for SuperLU (force-included with -include when building
 * the library variants under /verif/.build).  No source change in /repo is
 * needed for the allocation seam: slu_util.h routes every allocation through
 * USER_MALLOC / USER_FREE / USER_ABORT, which the build redefines to the
 * functions below.  The event hook (slu_vhook) is what the SLU_VERIF-guarded
 * lines in /repo call. */
#ifndef SLU_VHOOKS_H
#define SLU_VHOOKS_H
#include <stddef.h>
#include <stdio.h>
#ifdef __cplusplus
extern "C" {
#endif
void *slu_vmalloc(size_t size, const char *file, int line);
void  slu_vfree(void *p, const char *file, int line);
void  slu_vabort(const char *msg);
/* event hook: name + printf-style JSON body (without braces) */
void  slu_vhook(const char *event, const char *fmt, ...);

/* ---- control surface used by the harness ---- */
typedef struct {
    long live_blocks, live_bytes;     /* currently allocated through the seam */
    long total_allocs, total_frees;
    long bad_frees;                   /* free of unknown / already freed block */
    long redzone_hits;                /* damaged guard bytes seen at free / sweep */
    long failed_allocs;               /* injected failures delivered */
    long null_frees;                  /* free(NULL): legal, counted only */
} slu_v_ledger_t;
void  slu_v_reset(void);                       /* forget everything (start of scenario) */
void  slu_v_get(slu_v_ledger_t *out);
long  slu_v_mark(void);                        /* returns a serial; blocks allocated later have id > serial */
long  slu_v_live_since(long serial, int internal_only); /* live blocks with id > serial */
int   slu_v_sweep(void);                       /* check red zones of all live blocks; returns #damaged */
size_t slu_v_block_size(const void *p);        /* 0 if unknown */
void  slu_v_dump_live(FILE *f, long serial);   /* JSON array of live blocks (site,size) with id > serial */
void  slu_v_set_owner(const void *p, int owner); /* harness marks a block as caller-owned (1) */
/* failure injection: fail the k-th (1-based) allocation whose __FILE__ contains
 * `substr` (NULL/"" = any) and whose line equals `line` (0 = any).  sticky!=0:
 * fail every matching allocation from the k-th on. */
void  slu_v_fail(const char *substr, int line, long k, int sticky);
long  slu_v_matching_allocs(void);             /* how many allocations matched the filter so far */
void  slu_v_set_out(FILE *f);                  /* trace sink of this thread (NULL = events off) */
FILE *slu_v_get_out(void);
void  slu_v_set_events(int mask);              /* bit0 mem events, bit1 column events, bit2 phase events, bit3 refine */
int   slu_v_events(void);
void  slu_v_set_poison(int on);
void  slu_v_phases_reset(void);                /* phase events (P:Phase) of the current call: collected, printed as "phases":[...] */
void  slu_v_phases_json(FILE *f);
void  slu_v_hold(int on);                      /* park events while the harness writes one trace line */
/* scheduler yield point for the multi-threaded harness (called from slu_vhook and the allocator) */
extern void (*slu_v_yield)(const char *where);
#ifdef __cplusplus
}
#endif
#endif
