/* Additional harness commands: component routines (equilibration, condition estimate, refinement, kernels,
 * ordering, MC64, readers, Fortran bridge) and argument corruption for the screening checks.
 * Included by sluh.c. */
extern void getata(const int m, const int n, const int_t nz, const int_t *colptr, const int_t *rowind,
                   int_t *atanz, int_t **ata_colptr, int_t **ata_rowind);
extern void at_plus_a(const int n, const int_t nz, const int_t *colptr, const int_t *rowind,
                      int_t *bnz, int_t **b_colptr, int_t **b_rowind);
extern real_t FN(langs)(char *, SuperMatrix *);

/* ------------------------------------------------------------------ vectors x, y (embedded in poisoned buffers) */
#define VPAD 8
typedef struct { val_t *raw; val_t *v; int len, inc; long rawlen; } vec_t;
static TLS vec_t VX, VY, VC;
/* position of logical element i: BLAS convention, a negative increment traverses the array backwards */
static long vpos(const vec_t *V, int i) { return V->inc >= 0 ? (long)i * V->inc : (long)(V->len - 1 - i) * (-(long)V->inc); }
static void vec_set(vec_t *V, char *s)
{
    /* vec <len> <inc> values...  : logical length len, stride inc (negative: stored backwards) */
    int len = (int)rdint(&s), inc = (int)rdint(&s); long ainc = inc < 0 ? -(long)inc : inc;
    free(V->raw);
    V->len = len; V->inc = inc; V->rawlen = (long)(len > 0 ? (len - 1) * ainc + 1 : 0) + 2 * VPAD;
    V->raw = malloc((V->rawlen + 1) * sizeof(val_t));
    for (long i = 0; i < V->rawlen; i++) MKVAL(V->raw[i], -555.0, 555.0);
    V->v = V->raw + VPAD;
    for (int i = 0; i < len; i++) { double re = rdnum(&s), im = 0; if (NCOMP == 2) im = rdnum(&s); MKVAL(V->v[vpos(V, i)], re, im); }
}
static uint64_t vec_outside_digest(const vec_t *V)
{
    /* digest of every element that is not one of the len logical entries */
    uint64_t h = 99; long ainc = V->inc < 0 ? -(long)V->inc : V->inc;
    for (long i = 0; i < V->rawlen; i++) {
        long k = i - VPAD;
        int logical = k >= 0 && ainc > 0 && k % ainc == 0 && k / ainc < V->len;
        if (!logical) h = h * 1099511628211ULL ^ fnv(&V->raw[i], sizeof(val_t));
    }
    return h;
}
static void vec_json(const char *key, const vec_t *V)
{
    fprintf(OUT, ",\"%s\":[", key);
    for (int i = 0; i < V->len; i++) { if (i) fputc(',', OUT); jval(V->v[vpos(V, i)]); }
    fputc(']', OUT);
}

/* ------------------------------------------------------------------ pending argument corruption (C18) */
static TLS char g_corrupt[8][32]; static TLS int g_ncorrupt; static TLS long g_corrvar[8];
static int has_corr(const char *name) { for (int i = 0; i < g_ncorrupt; i++) if (!strcmp(g_corrupt[i], name)) return 1; return 0; }
/* every named corruption stands for a class of illegal values ("non-positive", "outside the enumeration", "below n"):
 * the scenario picks the member of the class by a variant number (default 0 = the first member) */
static long corr_var(const char *name) { for (int i = 0; i < g_ncorrupt; i++) if (!strcmp(g_corrupt[i], name)) return g_corrvar[i]; return 0; }
static int pick_other(const int *all, int nall, const int *valid, int nvalid, long v)
{
    int cand[16], nc = 0;
    for (int i = 0; i < nall; i++) { int ok = 1; for (int k = 0; k < nvalid; k++) if (all[i] == valid[k]) ok = 0; if (ok) cand[nc++] = all[i]; }
    return cand[(v < 0 ? -v : v) % nc];
}
static real_t nonpos_value(long v)
{
    switch ((v < 0 ? -v : v) % 4) { case 0: return (real_t)0; case 1: return (real_t)-1; case 2: return -(real_t)0; default: return -(sizeof(real_t) == 4 ? (real_t)1e-45 : (real_t)4.9406564584124654e-324); }
}
typedef struct { SuperMatrix A, B, X, L, U; DNformat Bs, Xs; superlu_options_t opt; long lwork; char eq; real_t r0, c0; int ri, ci; int usework; } saved_t;
static void corr_matrix(SuperMatrix *M, const char *pfx, int issq)
{
    char nm[48]; long v;
    static const int allS[] = {SLU_NC, SLU_NCP, SLU_NR, SLU_SC, SLU_SCP, SLU_SR, SLU_DN, SLU_NR_loc}, allD[] = {SLU_S, SLU_D, SLU_C, SLU_Z},
                     allM[] = {SLU_GE, SLU_TRLU, SLU_TRUU, SLU_TRL, SLU_TRU, SLU_SYL, SLU_SYU, SLU_HEL, SLU_HEU};
    snprintf(nm, sizeof nm, "%s.nonsquare", pfx); if (has_corr(nm)) { v = corr_var(nm); if (v % 3 == 1 && M->ncol > 1) M->ncol -= 1; else if (v % 3 == 2) M->nrow += 1; else M->ncol += 1; }
    snprintf(nm, sizeof nm, "%s.negdim", pfx); if (has_corr(nm)) { v = corr_var(nm) % 3; M->nrow = v == 1 ? -2 : -1; if (issq && v != 2) M->ncol = M->nrow; }
    snprintf(nm, sizeof nm, "%s.stype", pfx); if (has_corr(nm)) {
        /* the drivers accept both compressed orientations of A; every other tag is illegal for the argument */
        int validA[] = {SLU_NC, SLU_NR}, valid1[] = {(int)M->Stype};
        M->Stype = (Stype_t)(!strcmp(pfx, "A") ? pick_other(allS, 8, validA, 2, corr_var(nm)) : pick_other(allS, 8, valid1, 1, corr_var(nm)));
    }
    snprintf(nm, sizeof nm, "%s.dtype", pfx); if (has_corr(nm)) { int valid1[] = {(int)M->Dtype}; M->Dtype = (Dtype_t)pick_other(allD, 4, valid1, 1, corr_var(nm)); }
    snprintf(nm, sizeof nm, "%s.mtype", pfx); if (has_corr(nm)) { int valid1[] = {(int)M->Mtype}; M->Mtype = (Mtype_t)pick_other(allM, 9, valid1, 1, corr_var(nm)); }
}
static void save_args(ctx_t *c, saved_t *sv)
{
    sv->A = c->A; sv->B = c->B; sv->X = c->X; sv->L = c->L; sv->U = c->U; sv->opt = c->opt; sv->lwork = c->lwork; sv->eq = c->equed[0];
    sv->usework = c->usework;
    /* which entry of the scale factor arrays is made illegal: any of the n */
    sv->ri = c->n > 0 ? (int)((corr_var("R.nonpos") / 4) % c->n) : 0; sv->ci = c->n > 0 ? (int)((corr_var("C.nonpos") / 4) % c->n) : 0;
    sv->r0 = c->R ? c->R[sv->ri] : 0; sv->c0 = c->C ? c->C[sv->ci] : 0;
    if (c->haveB) { sv->Bs = *(DNformat *)c->B.Store; sv->Xs = *(DNformat *)c->X.Store; }
}
/* corruptions of caller data (part of what must come back untouched) */
static void apply_data_corruptions(ctx_t *c, const saved_t *sv)
{
    static const char badeq[] = {'Q', 'X', ' ', 'r', 0};
    if (has_corr("equed")) c->equed[0] = badeq[corr_var("equed") % 5];
    if (has_corr("R.nonpos")) c->R[sv->ri] = nonpos_value(corr_var("R.nonpos"));
    if (has_corr("C.nonpos")) c->C[sv->ci] = nonpos_value(corr_var("C.nonpos") + 1);      /* (variant 0: -1, as before) */
}
/* corruptions of argument headers / option values (restored by the harness after the call) */
static int bad_lda(const ctx_t *c, long v) { switch (v % 4) { case 0: return c->n - 1; case 1: return 0; case 2: return -3; default: return c->n > 2 ? 1 : c->n - 1; } }
static int bad_enum(int nvalid, long v) { switch (v % 4) { case 0: return nvalid + 3; case 1: return -1; case 2: return nvalid; default: return 1000 + (int)v; } }
static void apply_header_corruptions(ctx_t *c)
{
    if (!g_ncorrupt) return;
    corr_matrix(&c->A, "A", 1);
    if (c->haveB) {
        corr_matrix(&c->B, "B", 0); corr_matrix(&c->X, "X", 0);
        if (has_corr("B.ncolneg")) c->B.ncol = -1 - (int)(corr_var("B.ncolneg") % 3);
        if (has_corr("X.ncolneg")) c->X.ncol = -1 - (int)(corr_var("X.ncolneg") % 3);
        if (has_corr("B.lda")) ((DNformat *)c->B.Store)->lda = bad_lda(c, corr_var("B.lda"));
        if (has_corr("X.lda")) ((DNformat *)c->X.Store)->lda = bad_lda(c, corr_var("X.lda"));
        if (has_corr("X.ncolmismatch")) c->X.ncol = (corr_var("X.ncolmismatch") % 2 && c->B.ncol > 1) ? c->B.ncol - 1 : c->B.ncol + 1;
    }
    if (c->haveL) { corr_matrix(&c->L, "L", 1); corr_matrix(&c->U, "U", 1); }
    if (has_corr("opt.Fact")) c->opt.Fact = (fact_t)bad_enum(4, corr_var("opt.Fact"));
    if (has_corr("opt.Trans")) c->opt.Trans = (trans_t)bad_enum(3, corr_var("opt.Trans"));
    if (has_corr("opt.Equil")) c->opt.Equil = (yes_no_t)bad_enum(2, corr_var("opt.Equil"));
    if (has_corr("lwork")) { c->lwork = -2 - 49 * (corr_var("lwork") % 3); c->usework = 1; }
}
static void undo_header_corruptions(ctx_t *c, const saved_t *sv)
{
    c->A = sv->A; c->B = sv->B; c->X = sv->X; c->L = sv->L; c->U = sv->U; c->opt = sv->opt; c->lwork = sv->lwork; c->usework = sv->usework;
    if (c->haveB) { *(DNformat *)c->B.Store = sv->Bs; *(DNformat *)c->X.Store = sv->Xs; }
}
static void undo_data_corruptions(ctx_t *c, const saved_t *sv)
{
    if (has_corr("equed")) c->equed[0] = sv->eq;
    if (has_corr("R.nonpos")) c->R[sv->ri] = sv->r0;
    if (has_corr("C.nonpos")) c->C[sv->ci] = sv->c0;
}
static void corr_json(void)
{
    fputs(",\"corrupt\":[", OUT);
    for (int i = 0; i < g_ncorrupt; i++) fprintf(OUT, "%s\"%s\"", i ? "," : "", g_corrupt[i]);
    fputc(']', OUT);
}
/* digest of everything the caller owns: must be identical before / after a rejected call */
static uint64_t caller_digest(const ctx_t *c)
{
    uint64_t h = 17; int outer = c->fmt == 0 ? c->n : c->m;
    if (c->haveA) { h = h * 31 + fnv(c->a, c->nnz * sizeof(val_t)); h = h * 31 + fnv(c->idx, c->nnz * sizeof(int_t)); h = h * 31 + fnv(c->ptr, (outer + 1) * sizeof(int_t)); }
    if (c->haveB) { long tot = (long)c->ldb * c->nrhs, totx = (long)c->ldx * c->nrhs; h = h * 31 + fnv(c->b, tot * sizeof(val_t)); h = h * 31 + fnv(c->x, totx * sizeof(val_t)); }
    if (c->perm_c) {
        h = h * 31 + fnv(c->perm_c, MAXN * sizeof(int)); h = h * 31 + fnv(c->perm_r, MAXN * sizeof(int)); h = h * 31 + fnv(c->etree, MAXN * sizeof(int));
        h = h * 31 + fnv(c->R, MAXN * sizeof(real_t)); h = h * 31 + fnv(c->C, MAXN * sizeof(real_t)); h = h * 31 + (uint64_t)c->equed[0];
        h = h * 31 + fnv(c->ferr, 16 * sizeof(real_t)); h = h * 31 + fnv(c->berr, 16 * sizeof(real_t));
    }
    h = h * 31 + Ldig(c, 0); h = h * 31 + Ldig(c, 1); h = h * 31 + Udig(c, 0); h = h * 31 + Udig(c, 1);
    if (VX.raw) h = h * 31 + fnv(VX.raw, VX.rawlen * sizeof(val_t));
    if (VY.raw) h = h * 31 + fnv(VY.raw, VY.rawlen * sizeof(val_t));
    return h;
}

/* one rejected-or-not call of a driver / computational routine with the pending corruptions: logs info, whether every
 * caller object is byte-identical, and the ledger delta (C18) */
static void call_screen(const char *fn, char *args)
{
    ctx_t *c = cx; saved_t sv; ensure_stat(c);
    long live0; { slu_v_ledger_t l; slu_v_get(&l); live0 = l.live_blocks; }
    save_args(c, &sv);
    apply_data_corruptions(c, &sv);
    uint64_t d0 = caller_digest(c);       /* every byte of caller data as passed to the routine */
    apply_header_corruptions(c);
    long long info = -9999; int iinfo = -9999; int_t tinfo = -9999;
    void *work = c->usework ? (void *)c->work : NULL; int_t lwork = c->usework ? (int_t)c->lwork : 0;
    real_t rpg = 0, rcond = 0; mem_usage_t mu; char norm[2] = "1";
    if (!strcmp(fn, "gssv")) { FN(gssv)(&c->opt, &c->A, c->perm_c, c->perm_r, &c->L, &c->U, &c->B, &c->stat, &tinfo); info = tinfo; }
    else if (!strcmp(fn, "gssvx")) { FN(gssvx)(&c->opt, &c->A, c->perm_c, c->perm_r, c->etree, c->equed, c->R, c->C, &c->L, &c->U, work, lwork, &c->B, &c->X, &rpg, &rcond, c->ferr, c->berr, &c->Glu, &mu, &c->stat, &tinfo); info = tinfo; }
    else if (!strcmp(fn, "gsisx")) { FN(gsisx)(&c->opt, &c->A, c->perm_c, c->perm_r, c->etree, c->equed, c->R, c->C, &c->L, &c->U, work, lwork, &c->B, &c->X, &rpg, &rcond, &c->Glu, &mu, &c->stat, &tinfo); info = tinfo; }
    else if (!strcmp(fn, "gstrs")) { int tr = has_corr("trans") ? bad_enum(3, corr_var("trans")) : atoi(args); FN(gstrs)((trans_t)tr, &c->L, &c->U, c->perm_c, c->perm_r, &c->B, &c->stat, &iinfo); info = iinfo; }
    else if (!strcmp(fn, "gsrfs")) { int tr = has_corr("trans") ? bad_enum(3, corr_var("trans")) : atoi(args); FN(gsrfs)((trans_t)tr, &c->A, &c->L, &c->U, c->perm_c, c->perm_r, c->equed, c->R, c->C, &c->B, &c->X, c->ferr, c->berr, &c->stat, &iinfo); info = iinfo; }
    else if (!strcmp(fn, "gscon")) { if (has_corr("norm")) norm[0] = "XE2Z"[corr_var("norm") % 4]; else if (args && strchr(args, 'I')) norm[0] = 'I'; FN(gscon)(norm, &c->L, &c->U, (real_t)1.0, &rcond, &c->stat, &iinfo); info = iinfo; }
    else if (!strcmp(fn, "gsequ")) { real_t rc, cc, am; FN(gsequ)(&c->A, c->R, c->C, &rc, &cc, &am, &iinfo); info = iinfo; }
    else if (!strcmp(fn, "trsv")) {
        char u[2] = "L", t[2] = "N", d[2] = "U";
        if (has_corr("uplo")) u[0] = "XZ1 "[corr_var("uplo") % 4]; if (has_corr("trans")) t[0] = "XZ1 "[corr_var("trans") % 4]; if (has_corr("diag")) d[0] = "XZ1 "[corr_var("diag") % 4];
        SPFN(trsv)(u, t, d, &c->L, &c->U, VX.v, &c->stat, &iinfo); info = iinfo;
    }
    undo_header_corruptions(c, &sv);
    uint64_t d1 = caller_digest(c);
    undo_data_corruptions(c, &sv);
    slu_v_ledger_t l; slu_v_get(&l);
    fprintf(OUT, "{\"e\":\"Ret\",\"id\":\"%s\",\"fn\":\"screen\",\"routine\":\"%s\",\"ty\":\"" TYCH "\",\"n\":%d,\"info\":%lld,\"unchanged\":%d,\"live_delta\":%ld,\"bad_frees\":%ld,\"fact\":%d",
            g_id, fn, c->n, info, d0 == d1, l.live_blocks - live0, l.bad_frees, (int)c->opt.Fact);
    fprintf(OUT, ",\"eq\":\"%c\"", (sv.eq == 'R' || sv.eq == 'C' || sv.eq == 'B') ? sv.eq : 'N');
    corr_json();
    ENDLINE();
    g_ncorrupt = 0;
}

/* ------------------------------------------------------------------ equilibration (C11) */
static void call_equ(void)
{
    ctx_t *c = cx; snap_t s; take_snap(c, &s);
    real_t rowcnd = (real_t)-77, colcnd = (real_t)-77, amax = (real_t)-77; int info = -9999;
    c->ledger_mark = slu_v_mark();
    for (int i = 0; i < 64; i++) c->R[i] = c->C[i] = (real_t)-77;
    FN(gsequ)(&c->A, c->R, c->C, &rowcnd, &colcnd, &amax, &info);
    char eq[2] = "?";
    if (info == 0) FN(laqgs)(&c->A, c->R, c->C, rowcnd, colcnd, amax, eq);
    common_head("equ", c);
    fprintf(OUT, ",\"info\":%d,\"equed\":\"%c\"", info, (eq[0] >= 32 && eq[0] < 127 && eq[0] != '"' && eq[0] != '\\') ? eq[0] : '?');
    snap_json(c, &s);
    jreals("R", c->R, c->m); jreals("C", c->C, c->n);
    fputs(",\"rowcnd\":", OUT); jnum(rowcnd); fputs(",\"colcnd\":", OUT); jnum(colcnd); fputs(",\"amax\":", OUT); jnum(amax);
    ledger_json(c);
    ENDLINE();
    free_snap(&s);
}

/* ------------------------------------------------------------------ condition estimate / growth on existing factors (C12) */
static void call_gscon(char *args)
{
    ctx_t *c = cx; ensure_stat(c); char norm[2] = "1"; if (args && strchr(args, 'I')) norm[0] = 'I';
    real_t anorm = FN(langs)(norm, &c->A), rcond = (real_t)-77; int info = -9999;
    c->ledger_mark = slu_v_mark();
    uint64_t dl = Ldig(c, 0), du = Udig(c, 0);
    FN(gscon)(norm, &c->L, &c->U, anorm, &rcond, &c->stat, &info);
    common_head("gscon", c);
    fprintf(OUT, ",\"norm\":\"%s\",\"info\":%d,\"anorm\":", norm, info); jnum(anorm); fputs(",\"rcond\":", OUT); jnum(rcond);
    fprintf(OUT, ",\"factors_same\":%d", dl == Ldig(c, 0) && du == Udig(c, 0));
    A_json("A0", c); jints("perm_c", c->perm_c, c->n); jints("perm_r", c->perm_r, c->m);
    LU_json(c); ledger_json(c);
    ENDLINE();
}

/* the norm estimator driven directly with an explicit operator: the current matrix (dense use of its entries) plays
 * the role of the operator B whose 1-norm is estimated; every round of the reverse-communication loop is logged */
#if NCOMP == 1
extern int LACON2(int *, val_t *, val_t *, int *, real_t *, int *, int []);
#else
extern int LACON2(int *, val_t *, val_t *, real_t *, int *, int []);
#endif
static void call_lacon(void)
{
    ctx_t *c = cx; int n = c->n, kase = 0, isave[3] = {0, 0, 0}; real_t est = 0;
    val_t *v = calloc(n + 1, sizeof(val_t)), *x = calloc(n + 1, sizeof(val_t)), *y = calloc(n + 1, sizeof(val_t)); int *isgn = calloc(n + 1, sizeof(int));
    common_head("lacon", c); A_json("A0", c);
    fputs(",\"rounds\":[", OUT);
    int rounds = 0;
    do {
#if NCOMP == 1
        LACON2(&n, v, x, isgn, &est, &kase, isave);
#else
        LACON2(&n, v, x, &est, &kase, isave);
#endif
        fprintf(OUT, "%s{\"kase\":%d,\"jump\":%d,\"j\":%d,\"iter\":%d,\"est\":", rounds ? "," : "", kase, isave[0], isave[1], isave[2]); jnum((double)est);
        fputs(",\"x\":[", OUT); for (int i = 0; i < n; i++) { if (i) fputc(',', OUT); jval(x[i]); } fputs("]}", OUT);
        if (kase == 0 || ++rounds > 40) break;
        /* x := B x (kase 1) or B^H x (kase 2) with the stored matrix B (column storage) */
        for (int i = 0; i < n; i++) MKVAL(y[i], 0.0, 0.0);
        for (int j = 0; j < n; j++) for (int_t q = c->ptr[j]; q < c->ptr[j + 1]; q++) {
            int i = (int)c->idx[q]; double ar = RE(c->a[q]), ai = IM(c->a[q]);
            if (kase == 1) { double xr = RE(x[j]), xi = IM(x[j]); MKVAL(y[i], RE(y[i]) + ar * xr - ai * xi, IM(y[i]) + ar * xi + ai * xr); }
            else { double xr = RE(x[i]), xi = IM(x[i]); ai = -ai; MKVAL(y[j], RE(y[j]) + ar * xr - ai * xi, IM(y[j]) + ar * xi + ai * xr); }
        }
        memcpy(x, y, n * sizeof(val_t));
    } while (1);
    fprintf(OUT, "],\"nrounds\":%d,\"est\":", rounds); jnum((double)est);
    ENDLINE();
    free(v); free(x); free(y); free(isgn);
}

/* ------------------------------------------------------------------ kernels (C14) */
static void call_trsv(char *args)
{
    ctx_t *c = cx; ensure_stat(c); char u[8] = "L", t[8] = "N", d[8] = "U";
    sscanf(args, "%7s %7s %7s", u, t, d);
    int info = -9999; c->ledger_mark = slu_v_mark();
    uint64_t dl = Ldig(c, 0) ^ Ldig(c, 1), du = Udig(c, 0) ^ Udig(c, 1), dout = vec_outside_digest(&VX);
    val_t *x0 = malloc((VX.len + 1) * sizeof(val_t)); for (int i = 0; i < VX.len; i++) x0[i] = VX.v[i];
    SPFN(trsv)(u, t, d, &c->L, &c->U, VX.v, &c->stat, &info);
    common_head("trsv", c);
    fprintf(OUT, ",\"uplo\":\"%s\",\"trans\":\"%s\",\"diag\":\"%s\",\"info\":%d", u, t, d, info);
    jvals("x0", x0, VX.len); vec_json("x1", &VX);
    fprintf(OUT, ",\"factors_same\":%d,\"outside_same\":%d", dl == (Ldig(c, 0) ^ Ldig(c, 1)) && du == (Udig(c, 0) ^ Udig(c, 1)), dout == vec_outside_digest(&VX));
    jints("perm_c", c->perm_c, c->n); jints("perm_r", c->perm_r, c->m);
    LU_json(c); ledger_json(c);
    ENDLINE();
    free(x0);
}
static void call_gemv(char *args)
{
    ctx_t *c = cx; char t[16] = "N"; double ar = 1, ai = 0, br = 0, bi = 0;
    char *p = args; while (*p == ' ') p++; int k = 0; sscanf(p, "%15s%n", t, &k); p += k;
    ar = rdnum(&p); if (NCOMP == 2) ai = rdnum(&p); br = rdnum(&p); if (NCOMP == 2) bi = rdnum(&p);
    val_t alpha, beta; MKVAL(alpha, ar, ai); MKVAL(beta, br, bi);
    c->ledger_mark = slu_v_mark();
    uint64_t da = fnv(c->a, c->nnz * sizeof(val_t)), dxo = fnv(VX.raw, VX.rawlen * sizeof(val_t)), dyo = vec_outside_digest(&VY);
    val_t *y0 = malloc((VY.len + 1) * sizeof(val_t)); for (int i = 0; i < VY.len; i++) y0[i] = VY.v[vpos(&VY, i)];
    int ret = SPFN(gemv)(t, alpha, &c->A, VX.v, VX.inc, beta, VY.v, VY.inc);
    common_head("gemv", c);
    fprintf(OUT, ",\"trans\":\"%s\",\"ret\":%d,\"incx\":%d,\"incy\":%d,\"alpha\":", t, ret, VX.inc, VY.inc); jval(alpha); fputs(",\"beta\":", OUT); jval(beta);
    A_json("A0", c); vec_json("x", &VX); jvals("y0", y0, VY.len); vec_json("y1", &VY);
    fprintf(OUT, ",\"A_same\":%d,\"x_same\":%d,\"outside_same\":%d", da == fnv(c->a, c->nnz * sizeof(val_t)), dxo == fnv(VX.raw, VX.rawlen * sizeof(val_t)), dyo == vec_outside_digest(&VY));
    ledger_json(c);
    ENDLINE();
    free(y0);
}
/* C := alpha*op(A)*B + beta*C with dense B (k x ncolB, ldb) and C (m x ncolB, ldc) given through VX (as B) and VC */
static void call_gemm(char *args)
{
    ctx_t *c = cx; char t[16] = "N"; int nb = 1, ldb = 1, ldc = 1; double ar = 1, ai = 0, br = 0, bi = 0;
    char *p = args; while (*p == ' ') p++; int k = 0; sscanf(p, "%15s%n", t, &k); p += k;
    nb = (int)rdint(&p); ldb = (int)rdint(&p); ldc = (int)rdint(&p);
    ar = rdnum(&p); if (NCOMP == 2) ai = rdnum(&p); br = rdnum(&p); if (NCOMP == 2) bi = rdnum(&p);
    val_t alpha, beta; MKVAL(alpha, ar, ai); MKVAL(beta, br, bi);
    int notr = (t[0] == 'N' || t[0] == 'n');
    int rowsC = notr ? c->m : c->n, rowsB = notr ? c->n : c->m;
    c->ledger_mark = slu_v_mark();
    uint64_t dxo = fnv(VX.raw, VX.rawlen * sizeof(val_t));
    val_t *c0 = malloc((VC.len + 1) * sizeof(val_t)); memcpy(c0, VC.v, VC.len * sizeof(val_t));
    int ret = SPFN(gemm)(t, "N", rowsC, nb, rowsB, alpha, &c->A, VX.v, ldb, beta, VC.v, ldc);
    common_head("gemm", c);
    fprintf(OUT, ",\"trans\":\"%s\",\"ret\":%d,\"nb\":%d,\"ldb\":%d,\"ldc\":%d,\"alpha\":", t, ret, nb, ldb, ldc); jval(alpha); fputs(",\"beta\":", OUT); jval(beta);
    A_json("A0", c); vec_json("B", &VX); jvals("C0", c0, VC.len); vec_json("C1", &VC);
    fprintf(OUT, ",\"B_same\":%d", dxo == fnv(VX.raw, VX.rawlen * sizeof(val_t)));
    ledger_json(c);
    ENDLINE();
    free(c0);
}

/* ------------------------------------------------------------------ MC64 heap routines (C17): driven operation by operation */
extern int_t mc64dd_(int_t *, int_t *, int_t *, double *, int_t *, int_t *);
extern int_t mc64ed_(int_t *, int_t *, int_t *, double *, int_t *, int_t *);
extern int_t mc64fd_(int_t *, int_t *, int_t *, int_t *, double *, int_t *, int_t *);
/* heap <iway> <n> / keys k1..kn / ops: I<i> insert row i, E extract the root, F<i> remove row i from the middle,
 * D<i>:<k> give row i the key k (min-heap: smaller, max-heap: larger) and push it up.  The protocol is the one of
 * mc64wd_ / mc64bd_ (the caller maintains qlen and l[] around the calls). One event per operation. */
static void call_heap(char *args)
{
    int iw = 2, n = 0; if (sscanf(args, "%d %d", &iw, &n) < 2 || n < 1 || n > 60) return;
    int_t iway = iw, nn = n, qlen = 0;
    int_t *q = calloc(n + 2, sizeof(int_t)), *l = calloc(n + 2, sizeof(int_t)); double *d = calloc(n + 2, sizeof(double));
    char *p = nextline(); for (int i = 0; i < n; i++) d[i] = rdnum(&p);
    char *ops = nextline(); int step = 0;
    for (char *t = strtok(ops, " \t\r\n"); t; t = strtok(NULL, " \t\r\n")) {
        char op = t[0]; int_t i = atoi(t + 1), removed = 0;
        if (op == 'I' && i >= 1 && i <= n && l[i - 1] == 0) { ++qlen; l[i - 1] = qlen; mc64dd_(&i, &nn, q, d, l, &iway); }
        else if (op == 'E' && qlen > 0) { removed = q[0]; mc64ed_(&qlen, &nn, q, d, l, &iway); l[removed - 1] = 0; }
        else if (op == 'F' && i >= 1 && i <= n && l[i - 1] != 0) { removed = i; mc64fd_(&l[i - 1], &qlen, &nn, q, d, l, &iway); l[i - 1] = 0; }
        else if (op == 'D' && i >= 1 && i <= n && l[i - 1] != 0) { char *c2 = strchr(t, ':'); if (c2) d[i - 1] = strtod(c2 + 1, NULL); mc64dd_(&i, &nn, q, d, l, &iway); }
        else continue;
        fprintf(OUT, "{\"e\":\"Ret\",\"id\":\"%s\",\"fn\":\"heap\",\"ty\":\"" TYCH "\",\"iway\":%d,\"n\":%d,\"step\":%d,\"op\":\"%c\",\"arg\":%d,\"removed\":%d,\"qlen\":%d,\"Q\":[", g_id, iw, n, step++, op, (int)i, (int)removed, (int)qlen);
        for (int k = 0; k < qlen && k < n; k++) fprintf(OUT, "%s%d", k ? "," : "", (int)q[k]);
        fputs("],\"L\":[", OUT); for (int k = 0; k < n; k++) fprintf(OUT, "%s%d", k ? "," : "", (int)l[k]);
        fputs("],\"keys\":[", OUT); for (int k = 0; k < n; k++) fprintf(OUT, "%s%ld", k ? "," : "", lround(d[k]));
        fputs("]}\n", OUT);
    }
    free(q); free(l); free(d);
}

/* ------------------------------------------------------------------ ordering (C10) */
static void call_order(char *args)
{
    ctx_t *c = cx; int method = atoi(args); SuperMatrix AC;
    int *pc_in = malloc(MAXN * sizeof(int)); memcpy(pc_in, c->perm_c, MAXN * sizeof(int));
    int *et_in = malloc(MAXN * sizeof(int)); memcpy(et_in, c->etree, MAXN * sizeof(int));
    c->ledger_mark = slu_v_mark();
    c->opt.ColPerm = (colperm_t)method;
    if (method != MY_PERMC && c->opt.Fact == DOFACT) get_perm_c(method, &c->A, c->perm_c);
    int *pc_mid = malloc(MAXN * sizeof(int)); memcpy(pc_mid, c->perm_c, MAXN * sizeof(int));
    sp_preorder(&c->opt, &c->A, c->perm_c, c->etree, &AC);
    NCPformat *S = AC.Store;
    common_head("order", c);
    fprintf(OUT, ",\"method\":%d,\"sym\":%d,\"fact\":%d", method, (int)c->opt.SymmetricMode, (int)c->opt.Fact);
    A_json("A0", c);
    jints("perm_c_in", pc_in, c->n); jints("perm_c_mid", pc_mid, c->n); jints("perm_c", c->perm_c, c->n); jints("etree_in", et_in, c->n); jints("etree", c->etree, c->n);
    jintts("colbeg", S->colbeg, c->n); jintts("colend", S->colend, c->n); jintts("colptr", c->ptr, c->n + 1);
    fprintf(OUT, ",\"AC_shares_arrays\":%d,\"AC_nnz\":%lld,\"AC_dims\":[%d,%d]", S->nzval == (void *)c->a && S->rowind == c->idx, (long long)S->nnz, AC.nrow, AC.ncol);
    Destroy_CompCol_Permuted(&AC);
    ledger_json(c);
    ENDLINE();
    free(pc_in); free(pc_mid); free(et_in);
}
static void call_struct(int which)
{
    ctx_t *c = cx; int_t bnz = -1, *bp = NULL, *bi = NULL;
    c->ledger_mark = slu_v_mark();
    if (which == 0) getata(c->m, c->n, c->nnz, c->ptr, c->idx, &bnz, &bp, &bi);
    else at_plus_a(c->n, c->nnz, c->ptr, c->idx, &bnz, &bp, &bi);
    common_head(which == 0 ? "ata" : "aplusat", c);
    A_json("A0", c);
    fprintf(OUT, ",\"bnz\":%lld", (long long)bnz);
    if (bp) { jintts("b_colptr", bp, c->n + 1); jintts("b_rowind", bi, bnz > 0 ? bnz : 0); }
    if (bp) SUPERLU_FREE(bp);
    if (bi && bnz) SUPERLU_FREE(bi);
    ledger_json(c);
    ENDLINE();
}

/* ------------------------------------------------------------------ MC64 (C17) */
static void call_ldperm(char *args)
{
    ctx_t *c = cx; int job = atoi(args); if (job == 0) job = 5;
    int n = c->n; int *perm = int32Malloc(n + 1); real_t *u = (real_t *)SUPERLU_MALLOC((n + 1) * sizeof(real_t)), *v = (real_t *)SUPERLU_MALLOC((n + 1) * sizeof(real_t));
    for (int i = 0; i <= n; i++) { perm[i] = -7; u[i] = v[i] = (real_t)-77; }
    c->ledger_mark = slu_v_mark();
    uint64_t dp = fnv(c->ptr, (n + 1) * sizeof(int_t)), di = fnv(c->idx, c->nnz * sizeof(int_t)), da = fnv(c->a, c->nnz * sizeof(val_t));
    int ret = FN(ldperm)(job, n, c->nnz, c->ptr, c->idx, c->a, perm, u, v);
    common_head("ldperm", c);
    fprintf(OUT, ",\"job\":%d,\"ret\":%d", job, ret);
    A_json("A0", c); jints("perm", perm, n);
    /* duals as multiples of ln 2 (on the power-of-two domain they are integers): nearest integer and the deviation in 2^-40 units */
    fputs(",\"u_log2\":[", OUT); for (int i = 0; i < n; i++) { double q = (double)u[i] / 0.6931471805599453; fprintf(OUT, "%s%ld", i ? "," : "", isfinite(q) && fabs(q) < 1e6 ? lround(q) : 999999L); } fputc(']', OUT);
    fputs(",\"v_log2\":[", OUT); for (int i = 0; i < n; i++) { double q = (double)v[i] / 0.6931471805599453; fprintf(OUT, "%s%ld", i ? "," : "", isfinite(q) && fabs(q) < 1e6 ? lround(q) : 999999L); } fputc(']', OUT);
    double dev = 0; for (int i = 0; i < n; i++) { double q = (double)u[i] / 0.6931471805599453, w = (double)v[i] / 0.6931471805599453; if (isfinite(q)) dev = fmax(dev, fabs(q - round(q))); if (isfinite(w)) dev = fmax(dev, fabs(w - round(w))); }
    fprintf(OUT, ",\"dual_dev_micro\":%ld", (long)fmin(dev * 1e6, 1e9));
    jreals("u", u, n); jreals("v", v, n);
    fprintf(OUT, ",\"arrays_same\":%d,\"values_same\":%d", dp == fnv(c->ptr, (n + 1) * sizeof(int_t)) && di == fnv(c->idx, c->nnz * sizeof(int_t)), da == fnv(c->a, c->nnz * sizeof(val_t)));
    SUPERLU_FREE(perm); SUPERLU_FREE(u); SUPERLU_FREE(v);
    ledger_json(c);
    ENDLINE();
}

/* ------------------------------------------------------------------ readers (C16) */
/* expected content of the file about to be read (echoed into the trace; values go through the same conversion to the
 * arithmetic type as any caller data) */
static TLS int EXn = -1; static TLS long EXnnz; static TLS int *EXi, *EXj; static TLS val_t *EXv;
static void cmd_expect(char *s)
{
    EXn = (int)rdint(&s); EXnnz = rdint(&s);
    free(EXi); free(EXj); free(EXv);
    EXi = malloc((EXnnz + 1) * sizeof(int)); EXj = malloc((EXnnz + 1) * sizeof(int)); EXv = malloc((EXnnz + 1) * sizeof(val_t));
    char *p = nextline();
    for (long k = 0; k < EXnnz; k++) { EXi[k] = (int)rdint(&p); EXj[k] = (int)rdint(&p); double re = rdnum(&p), im = 0; if (NCOMP == 2) im = rdnum(&p); MKVAL(EXv[k], re, im); }
}
static void call_read(char *args)
{
    char fmt[16], path[512]; if (sscanf(args, "%15s %511s", fmt, path) < 2) return;
    int m = -1, n = -1; int_t nnz = -1; val_t *a = NULL; int_t *asub = NULL, *xa = NULL;
    long mark = slu_v_mark();
    FILE *fp = fopen(path, "r"); if (!fp) { fprintf(stderr, "sluh: cannot open %s\n", path); _exit(98); }
    if (!strcmp(fmt, "hb")) FN(readhb)(fp, &m, &n, &nnz, &a, &asub, &xa);
    else if (!strcmp(fmt, "mm")) FN(readMM)(fp, &m, &n, &nnz, &a, &asub, &xa);
    else {
        /* the remaining readers read stdin */
        int saved = dup(0); dup2(fileno(fp), 0); clearerr(stdin);
        if (!strcmp(fmt, "rb")) FN(readrb)(&m, &n, &nnz, &a, &asub, &xa);
        else if (!strcmp(fmt, "triple")) FN(readtriple)(&m, &n, &nnz, &a, &asub, &xa);
#ifdef T_D
        else if (!strcmp(fmt, "triple_noheader")) dreadtriple_noheader(&m, &n, &nnz, &a, &asub, &xa);   /* EXAMPLE/dreadtriple_noheader.c */
#endif
        dup2(saved, 0); close(saved);
    }
    if (strcmp(fmt, "hb") && strcmp(fmt, "rb")) fclose(fp);     /* ?readhb / ?readrb close the stream themselves */
    fprintf(OUT, "{\"e\":\"Ret\",\"id\":\"%s\",\"fn\":\"read\",\"ty\":\"" TYCH "\",\"fmt\":\"%s\",\"m\":%d,\"n\":%d,\"nnz\":%lld", g_id, fmt, m, n, (long long)nnz);
    if (n >= 0 && n < 5000 && nnz >= 0 && nnz < 100000 && xa && asub && a) {
        jintts("colptr", xa, n + 1);
        long used = xa[n] >= 0 && xa[n] <= nnz ? xa[n] : 0;
        jintts("rowind", asub, used); jvals("nzval", a, used);
        fprintf(OUT, ",\"alloc\":{\"nzval\":%ld,\"rowind\":%ld,\"colptr\":%ld}", (long)(slu_v_block_size(a) / sizeof(val_t)), (long)(slu_v_block_size(asub) / sizeof(int_t)), (long)(slu_v_block_size(xa) / sizeof(int_t)));
    }
    if (EXn >= 0) {
        fprintf(OUT, ",\"expect_n\":%d,\"expect\":[", EXn);
        for (long k = 0; k < EXnnz; k++) { fprintf(OUT, "%s[%d,%d,", k ? "," : "", EXi[k], EXj[k]); jval(EXv[k]); fputc(']', OUT); }
        fputc(']', OUT);
    }
    own(a); own(asub); own(xa);
    ctx_t tmp; memset(&tmp, 0, sizeof tmp); tmp.ledger_mark = mark; ledger_json(&tmp);
    ENDLINE();
    if (a) SUPERLU_FREE(a); if (asub) SUPERLU_FREE(asub); if (xa) SUPERLU_FREE(xa);
}

/* ------------------------------------------------------------------ Fortran-callable bridge (C20) */
#if defined(T_D) || defined(T_Z) || defined(T_S) || defined(T_C)
typedef long long fptr;
extern void CFORTRAN(int *iopt, int *n, int_t *nnz, int *nrhs, val_t *values, int_t *rowind, int_t *colptr, val_t *b, int *ldb, fptr *f_factors, int_t *info);
static TLS fptr g_handle[4];
static void call_bridge(char *args)
{
    /* bridge <iopt> <slot>: uses the current context's matrix (1-based copy) and right-hand side */
    ctx_t *c = cx; int iopt = 0, slot = 0; sscanf(args, "%d %d", &iopt, &slot); slot &= 3;
    int n = c->n, nrhs = c->haveB ? c->nrhs : 1, ldb = c->haveB ? c->ldb : n; int_t nnz = c->nnz, info = -9999;
    /* 1-based copies, as a Fortran caller would hold them: in pages of their own which are read-only while the bridge
     * runs (the matrix arrays are inputs; other threads of the caller may be reading them: FORTRAN/test_omp.F) */
    long pg = sysconf(_SC_PAGESIZE);
    size_t sz_ri = (((nnz + 1) * sizeof(int_t)) / pg + 1) * pg, sz_cp = (((n + 2) * sizeof(int_t)) / pg + 1) * pg, sz_va = (((nnz + 1) * sizeof(val_t)) / pg + 1) * pg;
    int_t *ri = (int_t *)mmap(NULL, sz_ri, PROT_READ | PROT_WRITE, MAP_PRIVATE | MAP_ANONYMOUS, -1, 0);
    int_t *cp = (int_t *)mmap(NULL, sz_cp, PROT_READ | PROT_WRITE, MAP_PRIVATE | MAP_ANONYMOUS, -1, 0);
    val_t *va = (val_t *)mmap(NULL, sz_va, PROT_READ | PROT_WRITE, MAP_PRIVATE | MAP_ANONYMOUS, -1, 0);
    if (ri == MAP_FAILED || cp == MAP_FAILED || va == MAP_FAILED) { fprintf(stderr, "sluh: mmap failed\n"); _exit(98); }
    for (int_t i = 0; i < nnz; i++) { ri[i] = c->idx[i] + 1; va[i] = c->a[i]; }
    for (int i = 0; i <= n; i++) cp[i] = c->ptr[i] + 1;
    mprotect(ri, sz_ri, PROT_READ); mprotect(cp, sz_cp, PROT_READ); mprotect(va, sz_va, PROT_READ);
    uint64_t d0 = fnv(ri, nnz * sizeof(int_t)) ^ fnv(cp, (n + 1) * sizeof(int_t)) ^ fnv(va, nnz * sizeof(val_t));
    snap_t s; take_snap(c, &s);
    long mark = slu_v_mark(); slu_v_ledger_t l0; slu_v_get(&l0);
    CFORTRAN(&iopt, &n, &nnz, &nrhs, va, ri, cp, c->haveB ? c->b : NULL, &ldb, &g_handle[slot], &info);
    slu_v_ledger_t l1; slu_v_get(&l1);
    uint64_t d1 = fnv(ri, nnz * sizeof(int_t)) ^ fnv(cp, (n + 1) * sizeof(int_t)) ^ fnv(va, nnz * sizeof(val_t));
    common_head("bridge", c);
    fprintf(OUT, ",\"iopt\":%d,\"slot\":%d,\"info\":%lld,\"arrays_same\":%d,\"live_delta\":%ld,\"live\":%ld", iopt, slot, (long long)info, d0 == d1, l1.live_blocks - l0.live_blocks, l1.live_blocks);
    snap_json(c, &s);
    fprintf(OUT, ",\"bad_frees\":%ld,\"redzone\":%ld}\n", l1.bad_frees, l1.redzone_hits + slu_v_sweep());
    free_snap(&s); munmap(ri, sz_ri); munmap(cp, sz_cp); munmap(va, sz_va); (void)mark;
}
#endif

static int extra_call(const char *fn, char *args)
{
    if (!strcmp(fn, "screen")) { char r[32]; int k = 0; if (sscanf(args, "%31s%n", r, &k) < 1) return 0; call_screen(r, args + k); return 1; }
    if (!strcmp(fn, "equ")) { call_equ(); return 1; }
    if (!strcmp(fn, "gscon")) { call_gscon(args); return 1; }
    if (!strcmp(fn, "lacon")) { call_lacon(); return 1; }
    if (!strcmp(fn, "trsv")) { call_trsv(args); return 1; }
    if (!strcmp(fn, "gemv")) { call_gemv(args); return 1; }
    if (!strcmp(fn, "gemm")) { call_gemm(args); return 1; }
    if (!strcmp(fn, "order")) { call_order(args); return 1; }
    if (!strcmp(fn, "ata")) { call_struct(0); return 1; }
    if (!strcmp(fn, "aplusat")) { call_struct(1); return 1; }
    if (!strcmp(fn, "ldperm")) { call_ldperm(args); return 1; }
    if (!strcmp(fn, "heap")) { call_heap(args); return 1; }
    if (!strcmp(fn, "read")) { call_read(args); return 1; }
    if (!strcmp(fn, "bridge")) { call_bridge(args); return 1; }
    return 0;
}
static int extra_cmd(const char *cmd, char *rest)
{
    if (!strcmp(cmd, "corrupt")) { char nm[32]; long var = 0; if (sscanf(rest, "%31s %ld", nm, &var) >= 1 && g_ncorrupt < 8) { g_corrvar[g_ncorrupt] = var < 0 ? -var : var; strcpy(g_corrupt[g_ncorrupt++], nm); } return 1; }
    if (!strcmp(cmd, "vecx")) { vec_set(&VX, rest); return 1; }
    if (!strcmp(cmd, "vecy")) { vec_set(&VY, rest); return 1; }
    if (!strcmp(cmd, "vecc")) { vec_set(&VC, rest); return 1; }
    if (!strcmp(cmd, "expect")) { cmd_expect(rest); return 1; }
    /* the scale factor arrays that the documentation calls "not accessed" for the current equed are filled with values
     * that are illegal as scale factors (a caller need not have initialised them) */
    if (!strcmp(cmd, "poisonscale")) {
        ctx_t *c = cx; if (!c->R) return 1;
        if (c->equed[0] == 'N' || c->equed[0] == 'C') for (int i = 0; i < MAXN; i++) c->R[i] = (real_t)(i % 2 ? 0.0 : -3.0);
        if (c->equed[0] == 'N' || c->equed[0] == 'R') for (int i = 0; i < MAXN; i++) c->C[i] = (real_t)(i % 2 ? -1.0 : 0.0);
        return 1;
    }
    if (!strcmp(cmd, "seteq")) { char q[4]; if (sscanf(rest, "%3s", q) == 1) cx->equed[0] = q[0]; return 1; }
    return 0;
}
