/* Additional harness commands (ordering, equilibration, kernels, estimator, readers, bridge, screening).
 * Included by sluh.c; grows property by property. */
static int extra_call(const char *fn, char *args) { (void)fn; (void)args; return 0; }
static int extra_cmd(const char *cmd, char *rest) { (void)cmd; (void)rest; return 0; }
