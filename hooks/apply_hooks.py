#!/usr/bin/env python3
"""Inserts the SLU_VERIF-guarded hook lines into /repo (add-only).  Kept for the record:
the result is committed in /repo as 'hook:' commits; this script is idempotent."""
import re, sys, os
REPO = sys.argv[1] if len(sys.argv) > 1 else "/repo"
SRC = os.path.join(REPO, "SRC")

def patch(path, edits):
    s = open(path).read()
    if "SLU_VHOOK" in s and not path.endswith("slu_util.h"):
        print("already hooked:", path); return
    for anchor, new, where in edits:
        cnt = s.count(anchor)
        if cnt != 1:
            raise SystemExit("%s: anchor occurs %d times: %r" % (path, cnt, anchor))
        s = s.replace(anchor, (anchor + new) if where == "after" else (new + anchor))
    open(path, "w").write(s)
    print("hooked:", path)

# ---- slu_util.h: the macro
util = os.path.join(SRC, "slu_util.h")
s = open(util).read()
if "SLU_VERIF" not in s:
    s = s.replace("#ifdef __cplusplus\n  }\n#endif\n\n#endif /* __SUPERLU_UTIL */",
"""#ifdef SLU_VERIF
/* Verification hooks (conformance checking against the TLA+ specification):
   one event per state change, emitted only when a test harness installs a sink. */
extern void slu_vhook(const char *event, const char *fmt, ...);
extern void slu_vhook_mem(const char *event, const GlobalLU_t *Glu, const char *fmt, ...);
#define SLU_VHOOK(...)     slu_vhook(__VA_ARGS__)
#define SLU_VHOOK_MEM(...) slu_vhook_mem(__VA_ARGS__)
#else
#define SLU_VHOOK(...)
#define SLU_VHOOK_MEM(...)
#endif

#ifdef __cplusplus
  }
#endif

#endif /* __SUPERLU_UTIL */""")
    open(util, "w").write(s); print("hooked:", util)

for t in "sdcz":
    f = os.path.join(SRC, t + "memory.c")
    um = "%suser_malloc" % t
    edits = [
      ("\tGlu->stack.array = (void *) work;\n    }\n", '    SLU_VHOOK_MEM("M:MemSetup", Glu, "\\"lwork\\":%lld", (long long) lwork);\n', "after"),
      ("    if ( StackFull(bytes) ) return (NULL);\n", '    if ( StackFull(bytes) ) SLU_VHOOK_MEM("M:UMalloc", Glu, "\\"bytes\\":%d,\\"end\\":%d,\\"ok\\":0,\\"off\\":0", bytes, which_end);\n', "before"),
      ("    Glu->stack.used += bytes;\n    return buf;\n", None, None),
      ("    Glu->stack.used -= bytes;\n}\n", None, None),
    ]
    s = open(f).read()
    if "SLU_VHOOK" in s:
        print("already hooked:", f)
    else:
        def rep(a, b, count=1):
            global s
            if s.count(a) != count: raise SystemExit("%s: anchor x%d: %r" % (f, s.count(a), a))
            s = s.replace(a, b)
        rep("\tGlu->stack.array = (void *) work;\n    }\n", "\tGlu->stack.array = (void *) work;\n    }\n"
            '    SLU_VHOOK_MEM("M:MemSetup", Glu, "\\"lwork\\":%lld", (long long) lwork);\n')
        rep("    if ( StackFull(bytes) ) return (NULL);\n",
            '    if ( StackFull(bytes) ) SLU_VHOOK_MEM("M:UMalloc", Glu, "\\"bytes\\":%d,\\"end\\":%d,\\"ok\\":0,\\"off\\":0", bytes, which_end);\n'
            "    if ( StackFull(bytes) ) return (NULL);\n")
        rep("    Glu->stack.used += bytes;\n    return buf;\n",
            "    Glu->stack.used += bytes;\n"
            '    SLU_VHOOK_MEM("M:UMalloc", Glu, "\\"bytes\\":%d,\\"end\\":%d,\\"ok\\":1,\\"off\\":%lld", bytes, which_end, (long long)((char*)buf - (char*)Glu->stack.array));\n'
            "    return buf;\n")
        rep("    Glu->stack.used -= bytes;\n}\n",
            "    Glu->stack.used -= bytes;\n"
            '    SLU_VHOOK_MEM("M:UFree", Glu, "\\"bytes\\":%d,\\"end\\":%d", bytes, which_end);\n}\n')
        # the four first-time expands occur twice (initial attempt and retry loop)
        a = "\tusub  = (int_t *) %sexpand( &nzumax, USUB, 0, 1, Glu );\n" % t
        b = a + '\tSLU_VHOOK_MEM("M:InitExpands", Glu, "\\"ok\\":[%d,%d,%d,%d],\\"req\\":[%lld,%lld,%lld]", lusup != NULL, ucol != NULL, lsub != NULL, usub != NULL, (long long) nzlumax, (long long) nzumax, (long long) nzlmax);\n'
        a2 = "\t    usub  = (int_t *) %sexpand( &nzumax, USUB, 0, 1, Glu );\n" % t
        b2 = a2 + '\t    SLU_VHOOK_MEM("M:InitExpands", Glu, "\\"ok\\":[%d,%d,%d,%d],\\"req\\":[%lld,%lld,%lld]", lusup != NULL, ucol != NULL, lsub != NULL, usub != NULL, (long long) nzlumax, (long long) nzumax, (long long) nzlmax);\n'
        rep(a, b); rep(a2, b2)
        rep("\t    nzlmax /= 2;\n", "\t    nzlmax /= 2;\n"
            '\t    SLU_VHOOK_MEM("M:InitRetry", Glu, "\\"req\\":[%lld,%lld,%lld],\\"annz\\":%lld", (long long) nzlumax, (long long) nzumax, (long long) nzlmax, (long long) annz);\n')
        rep("    info = %sLUWorkInit(m, n, panel_size, iwork, dwork, Glu);\n" % t,
            "    info = %sLUWorkInit(m, n, panel_size, iwork, dwork, Glu);\n" % t +
            '    SLU_VHOOK_MEM("M:WorkInit", Glu, "\\"ret\\":%d,\\"iwork\\":%lld,\\"dwork\\":%lld", info,\n'
            '\t\t  (long long)((Glu->MemModel == USER && !info) ? (char*)*iwork - (char*)Glu->stack.array : 0),\n'
            '\t\t  (long long)((Glu->MemModel == USER && !info) ? (char*)*dwork - (char*)Glu->stack.array : 0));\n')
        rep("/*\t%sStackCompress(Glu);  */\n    }\n" % t, "/*\t%sStackCompress(Glu);  */\n    }\n" % t +
            '    SLU_VHOOK_MEM("M:WorkFree", Glu, "\\"x\\":0");\n')
        # ?LUMemXpand: result of the expansion request
        rep("\tnew_mem = %sexpand(maxlen, mem_type, next, 0, Glu);\n    \n" % t,
            "\tnew_mem = %sexpand(maxlen, mem_type, next, 0, Glu);\n" % t +
            '    SLU_VHOOK_MEM("M:Xpand", Glu, "\\"jcol\\":%d,\\"next\\":%lld,\\"type\\":%d,\\"maxlen\\":%lld,\\"ok\\":%d", jcol, (long long) next, (int) mem_type, (long long) *maxlen, new_mem != NULL);\n    \n')
        # ?expand: entry and successful exit
        rep("    alpha = EXPAND;\n\n", "    alpha = EXPAND;\n"
            '    SLU_VHOOK_MEM("M:ExpandBegin", Glu, "\\"type\\":%d,\\"prev_len\\":%lld,\\"len_to_copy\\":%lld,\\"keep_prev\\":%d", (int) type, (long long) *prev_len, (long long) len_to_copy, keep_prev);\n\n')
        rep("    if ( Glu->num_expansions ) ++Glu->num_expansions;\n    \n",
            "    if ( Glu->num_expansions ) ++Glu->num_expansions;\n"
            '    SLU_VHOOK_MEM("M:Expand", Glu, "\\"type\\":%d,\\"new_len\\":%lld,\\"keep_prev\\":%d,\\"ok\\":%d", (int) type, (long long) new_len, keep_prev, expanders[type].mem != NULL);\n    \n')
        open(f, "w").write(s); print("hooked:", f)

    # ---- factor routines: per-column events
    for fname, piv in ((t + "gstrf.c", t + "pivotL"), (t + "gsitrf.c", "ilu_" + t + "pivotL")):
        f = os.path.join(SRC, fname)
        s = open(f).read()
        if "SLU_VHOOK" in s:
            print("already hooked:", f); continue
        # after the LUMemInit call statement (ends with ';' on a following line)
        m = re.search(r"    \*info = %sLUMemInit\(fact, work, lwork, m, n, Astore->nnz,[^;]*;\n" % t, s)
        if not m: raise SystemExit(f + ": LUMemInit anchor")
        s = s[:m.end()] + '    SLU_VHOOK_MEM("M:InitReturn", Glu, "\\"ret\\":%lld,\\"m\\":%d,\\"n\\":%d,\\"annz\\":%lld,\\"lwork\\":%lld,\\"fact\\":%d", (long long) *info, m, n, (long long) Astore->nnz, (long long) lwork, (int) fact);\n' + s[m.end():]
        # after each pivotL statement: "if ( (*info = Xpivot(...)) )\n <ws> if ( iinfo == 0 ) iinfo = *info;\n"
        if piv.startswith("ilu_"):
            pat = re.compile(r"(if \( \(\*info = %s\((\w+),[^;]*?\)\) \) \{\n.*?\n\t\t\}\n)" % re.escape(piv), re.S)
        else:
            pat = re.compile(r"(if \( \(\*info = %s\((\w+),[^;]*?\)\) \)\s*\n\s*if \( iinfo == 0 \) iinfo = \*info;\n)" % re.escape(piv))
        ms = list(pat.finditer(s))
        if len(ms) != 2: raise SystemExit("%s: pivot anchors %d" % (f, len(ms)))
        out = []; last = 0
        for k, mm in enumerate(ms):
            col = mm.group(2)
            hook = ('\t\tSLU_VHOOK_MEM("C:Col", Glu, "\\"kind\\":%d,\\"jcol\\":%d,\\"pivrow\\":%d,\\"usepr\\":%d,\\"iinfo\\":%lld,\\"nextl\\":%lld,\\"nextlu\\":%lld,\\"nextu\\":%lld", '
                    + str(k) + ', (int) ' + col + ', pivrow, usepr, (long long) iinfo, (long long) xlsub[xsup[supno[' + col + ']]+1], (long long) xlusup[' + col + '+1], (long long) xusub[' + col + '+1]);\n')
            out.append(s[last:mm.end()] + hook); last = mm.end()
        s = "".join(out) + s[last:]
        a = "    stat->expansions = --(Glu->num_expansions);\n"
        if s.count(a) != 1: raise SystemExit(f + ": expansions anchor")
        s = s.replace(a, a + '    SLU_VHOOK_MEM("C:FactEnd", Glu, "\\"info\\":%lld,\\"nnzL\\":%lld,\\"nnzU\\":%lld", (long long) *info, (long long) nnzL, (long long) nnzU);\n')
        open(f, "w").write(s); print("hooked:", f)

# ---- refinement loop events (see /repo commit "hook: refinement loop events"): RefineIter after each evaluation of berr,
# RefineStep / RefineStop in the two branches of the stopping test; slu_v_tok() declared next to slu_vhook in slu_util.h
