#!/usr/bin/env python3
"""Inserts the SLU_VERIF-guarded Phase hooks into the expert drivers [sdcz]gssvx.c (add-only; one line per phase of
spec/SluDriver.tla, placed after the state change the phase stands for).  Idempotent; the result is committed in /repo
as a 'hook:' commit."""
import os, re, sys
REPO = sys.argv[1] if len(sys.argv) > 1 else "/repo"
SRC = os.path.join(REPO, "SRC")


def H(name, extra=""):
    return 'SLU_VHOOK("P:Phase", "\\"name\\":\\"%s\\",\\"info\\":%%lld"%s, (long long) *info);' % (name, extra)


def add_after(s, pattern, line, count=1, flags=0):
    """insert `line` (with the indentation of the matched line) after every line matching `pattern`"""
    out, n = [], 0
    for ln in s.split("\n"):
        out.append(ln)
        if re.search(pattern, ln, flags):
            n += 1
            ind = re.match(r"[ \t]*", ln).group(0)
            out.append(ind + line)
    if n != count:
        raise SystemExit("pattern %r matched %d times (expected %d)" % (pattern, n, count))
    return "\n".join(out)


def add_before(s, pattern, line, count=1):
    out, n = [], 0
    for ln in s.split("\n"):
        if re.search(pattern, ln):
            n += 1
            ind = re.match(r"[ \t]*", ln).group(0)
            out.append(ind + line)
        out.append(ln)
    if n != count:
        raise SystemExit("pattern %r matched %d times (expected %d)" % (pattern, n, count))
    return "\n".join(out)


for t in "sdcz":
    f = os.path.join(SRC, t + "gssvx.c")
    s = open(f).read()
    if "P:Phase" in s:
        print("already hooked:", f); continue
    cplx = t in "cz"
    s = add_after(s, r'input_error\("%sgssvx", &i\);' % t, H("Rejected"))
    s = add_after(s, r"^\tGlu->expanders = NULL;", H("Query"))
    s = add_before(s, r"if \( notran \) \{ /\* Reverse the transpose argument\. \*/", H("Convert"))
    s = add_after(s, r"utime\[EQUIL\] = SuperLU_timer_\(\) - t0;", H("Equil"))
    s = add_after(s, r"^\s*get_perm_c\(permc_spec, AA, perm_c\);", "if ( permc_spec != MY_PERMC && options->Fact == DOFACT ) " + H("Order"))
    s = add_after(s, r"utime\[ETREE\] = SuperLU_timer_\(\) - t0;", H("Preorder"))
    s = add_after(s, r"utime\[FACT\] = SuperLU_timer_\(\) - t0;", H("Factor"))
    s = add_before(s, r"if \( \*info <= A->ncol \) \{ /\* singular \*/", 'if ( *info <= A->ncol ) ' + H("Singular") + ' else ' + H("NoMem"))
    s = add_after(s, r"\*recip_pivot_growth = %sPivotGrowth\(" % t, H("Growth"), count=2)
    s = add_after(s, r"utime\[RCOND\] = SuperLU_timer_\(\) - t0;", H("Cond"))
    if cplx:
        s = add_after(s, r"(?:cs|zd)_mult\(&Bmat\[i\+j\*ldb\], &Bmat\[i\+j\*ldb\], [RC]\[i\]\);", H("ScaleB"), count=2)
        s = add_after(s, r"(?:cs|zd)_mult\(&Xmat\[i\+j\*ldx\], &Xmat\[i\+j\*ldx\], [RC]\[i\]\);", H("UnscaleX"), count=2)
    else:
        s = add_after(s, r"Bmat\[i \+ j\*ldb\] \*= [RC]\[i\];", H("ScaleB"), count=2)
        s = add_after(s, r"Xmat\[i \+ j\*ldx\] \*= [RC]\[i\];", H("UnscaleX"), count=2)
    s = add_after(s, r"Xmat\[i \+ j\*ldx\] = Bmat\[i \+ j\*ldb\];", H("CopyBX"))
    s = add_after(s, r"utime\[SOLVE\] = SuperLU_timer_\(\) - t0;", H("Solve"))
    s = add_after(s, r"^\s*X, ferr, berr, stat, &info1\);", H("Refine"))
    s = add_after(s, r"for \(j = 0; j < nrhs; \+\+j\) ferr\[j\] = berr\[j\] = 1\.0;", H("NoRefine"))
    s = add_after(s, r'^\s*if \( \*rcond < [sd]mach\("E"\) \) \*info = A->ncol \+ 1;', "if ( *info == A->ncol + 1 ) " + H("Warn"))
    s = add_before(s, r"^\s*%sQuerySpace\(L, U, mem_usage\);" % t, H("Cleanup"))
    open(f, "w").write(s)
    print("hooked:", f)


def add_after_skip(s, pattern, line, skip, count=1):
    """like add_after, but the line goes `skip` lines further down (past the closing brace of a braced loop body); the
    skipped lines must consist of closing braces only"""
    lines = s.split("\n"); out = []; n = 0; pending = []
    for ln in lines:
        out.append(ln)
        pending = [(k - 1, l2, ind) for (k, l2, ind) in pending]
        for k, l2, ind in list(pending):
            if k == 0:
                out.append(ind + l2)
            elif ln.strip() != "}":
                raise SystemExit("expected a closing brace after %r, found %r" % (pattern, ln))
        pending = [(k, l2, ind) for (k, l2, ind) in pending if k > 0]
        if re.search(pattern, ln):
            n += 1
            ind = re.match(r"[ \t]*", ln).group(0)
            if skip == 0:
                out.append(ind + line)
            else:
                pending.append((skip, line, ind[:-4] if len(ind) >= 4 else ind))
    if n != count:
        raise SystemExit("pattern %r matched %d times (expected %d)" % (pattern, n, count))
    return "\n".join(out)


# ---- the incomplete-factorization driver
for t in "sdcz":
    f = os.path.join(SRC, t + "gsisx.c")
    s = open(f).read()
    if "P:Phase" in s:
        print("already hooked:", f); continue
    cplx = t in "cz"
    s = add_after(s, r'input_error\("%sgsisx", &ii?\);' % t, H("Rejected"))
    s = add_after(s, r"^\tGlu->expanders = NULL;", H("Query"))
    s = add_before(s, r"if \( notran \) \{ /\* Reverse the transpose argument\. \*/", H("Convert"))
    # first utime[EQUIL]: end of the MC64 block (mc64 is cleared when the matching failed); second: ordinary equilibration
    parts = s.split("utime[EQUIL] = SuperLU_timer_() - t0;")
    if len(parts) != 3:
        raise SystemExit("%s: utime[EQUIL] occurs %d times" % (f, len(parts) - 1))
    s = (parts[0] + "utime[EQUIL] = SuperLU_timer_() - t0;\n\t    if ( mc64 ) { " + H("RowPerm") + " if ( equil ) " + H("Equil") + " }"
         + parts[1] + "utime[EQUIL] = SuperLU_timer_() - t0;\n\t    " + H("Equil") + parts[2])
    s = add_after(s, r"^\s*get_perm_c\(permc_spec, AA, perm_c\);", "if ( permc_spec != MY_PERMC && options->Fact == DOFACT ) " + H("Order"))
    s = add_after(s, r"utime\[ETREE\] = SuperLU_timer_\(\) - t0;", H("Preorder"))
    s = add_after(s, r"utime\[FACT\] = SuperLU_timer_\(\) - t0;", H("Factor"))
    s = add_after(s, r"for \(i = 0; i < nnz; \+\+i\) rowind\[i\] = iperm\[rowind\[i\]\];", H("RestoreRows"))
    s = add_after(s, r"if \( \*info > n \) \{ /\* Out of memory", H("NoMem"))
    s = add_after(s, r"\*recip_pivot_growth = %sPivotGrowth\(" % t, H("Growth"))
    s = add_after(s, r"utime\[RCOND\] = SuperLU_timer_\(\) - t0;", H("Cond"))
    mult = r"(?:cs|zd)_mult\(&%smat\[i\+j\*ld%s\], &%smat\[i\+j\*ld%s\], %s\[i\]\);" if cplx else None
    def pat(M, ld, V):
        return (mult % (M, ld, M, ld, V)) if cplx else r"%smat\[i \+ j\*ld%s\] \*= %s\[i\];" % (M, ld, V)
    s = add_after_skip(s, pat("B", "b", "R"), H("ScaleB"), 0)
    s = add_after_skip(s, pat("B", "b", "C"), H("ScaleB"), 1)
    s = add_after_skip(s, pat("X", "x", "C"), H("UnscaleX"), 1)
    s = add_after_skip(s, pat("X", "x", "R"), H("UnscaleX"), 1)
    s = add_after(s, r"Xmat\[i \+ j\*ldx\] = Bmat\[i \+ j\*ldb\];", H("CopyBX"))
    s = add_after(s, r"utime\[SOLVE\] = SuperLU_timer_\(\) - t0;", H("Solve"))
    s = add_after(s, r'^\s*if \( \*rcond < [sd]mach\("E"\) && \*info == 0\) \*info = A->ncol \+ 1;', "if ( *info == A->ncol + 1 ) " + H("Warn"))
    s = add_before(s, r"^\s*ilu_%sQuerySpace\(L, U, mem_usage\);" % t, H("Cleanup"))
    open(f, "w").write(s)
    print("hooked:", f)
