SPECIFICATION SpecNeg
CONSTANT N = 3
INVARIANT PolicyIsSafe
CHECK_DEADLOCK FALSE
