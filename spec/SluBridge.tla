------------------------------ MODULE SluBridge ------------------------------
(***************************************************************************)
(* The Fortran-callable bridge c_fortran_?gssv_ (C20): a factor request     *)
(* (iopt = 1) yields an opaque handle owning L, U, perm_c, perm_r; solve    *)
(* requests (iopt = 2) with that handle overwrite b with the solution the   *)
(* simple driver would return for the handle's matrix; a free request       *)
(* (iopt = 3) releases everything the handle owns.  Several handles may be  *)
(* live at once.  TLC enumerates all request histories over the handles.    *)
(***************************************************************************)
EXTENDS Integers, Sequences, FiniteSets, TLC, Json
CONSTANTS Handles, MaxLen
VARIABLES hist, live
vars == <<hist, live>>
Init == hist = <<>> /\ live = {}
Req(op, h) == Len(hist) < MaxLen /\ hist' = Append(hist, <<op, h>>)
Factor(h) == h \notin live /\ Req("factor", h) /\ live' = live \cup {h}
Solve(h) == h \in live /\ Req("solve", h) /\ UNCHANGED live
Free(h) == h \in live /\ Req("free", h) /\ live' = live \ {h}
Next == \E h \in Handles : Factor(h) \/ Solve(h) \/ Free(h)
Spec == Init /\ [][Next]_vars
Emit == hist = <<>> \/ PrintT(ToJson([hist |-> hist, live |-> live]))
\* a handle is solved with / freed only while it is live (the documented protocol)
Protocol == \A i \in 1..Len(hist) : hist[i][1] \in {"solve", "free"} =>
              \E k \in 1..(i - 1) : hist[k] = <<"factor", hist[i][2]>> /\ \A q \in (k + 1)..(i - 1) : hist[q] # <<"free", hist[i][2]>>
=============================================================================
