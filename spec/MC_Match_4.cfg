SPECIFICATION Spec
CONSTANT N = 4
INVARIANT OraclesAgree
INVARIANT BoundHolds
CHECK_DEADLOCK FALSE
