SPECIFICATION Spec
CONSTANT N = 4
INVARIANT OraclesAgree
INVARIANT BoundHolds
INVARIANT RecAgrees
CHECK_DEADLOCK FALSE
