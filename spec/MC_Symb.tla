------------------------------ MODULE MC_Symb ------------------------------
(***************************************************************************)
(* The sweep SluStore!SymbReach against Boolean Gaussian elimination: for   *)
(* every N x N pattern with a full diagonal (no pivoting needed), sweeping  *)
(* the earlier columns of the filled matrix reaches exactly column j of the *)
(* filled matrix.  (Singleton supernodes: LC(k) is column k of the fill.)   *)
(***************************************************************************)
EXTENDS SluStore, TLC
CONSTANT N
VARIABLE pat
Ix == 0 .. (N - 1)
Init == pat \in {P \in SUBSET (Ix \X Ix) : \A i \in Ix : <<i, i>> \in P}
Next == UNCHANGED pat
Spec == Init /\ [][Next]_pat
\* Boolean elimination: after step k every (i, j) with i, j > k, (i, k) and (k, j) present is present
RECURSIVE Elim(_, _)
Elim(F, k) == IF k >= N THEN F ELSE Elim(F \cup {<<i, j>> \in Ix \X Ix : i > k /\ j > k /\ <<i, k>> \in F /\ <<k, j>> \in F}, k + 1)
Fill == Elim(pat, 0)
LCf(k) == {i \in Ix : i >= k /\ <<i, k>> \in Fill}
SweepIsFill == \A j \in Ix : SymbReach(LCf, {i \in Ix : <<i, j>> \in pat}, j) = {i \in Ix : <<i, j>> \in Fill}
=============================================================================
