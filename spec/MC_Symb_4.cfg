SPECIFICATION Spec
CONSTANT N = 4
INVARIANT SweepIsFill
CHECK_DEADLOCK FALSE
