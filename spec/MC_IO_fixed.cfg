SPECIFICATION Spec
CONSTANTS
  N = 3
  MaxNz = 4
  CapRule = "2nz"
INVARIANT WriteInCapacity
INVARIANT ResultIsFile
CHECK_DEADLOCK FALSE
