----------------------------- MODULE SluHeapOps -----------------------------
(***************************************************************************)
(* Representation contract of the MC64 binary heap (see SluHeap).          *)
(***************************************************************************)
EXTENDS Integers, Sequences, FiniteSets


Better(way, a, b) == IF way = 1 THEN a >= b ELSE a <= b
RepOK(way, members, key, qlen, Q, L, n) ==
  /\ qlen = Cardinality(members) /\ Len(Q) = qlen /\ Len(L) = n
  /\ {Q[k] : k \in 1..qlen} = members
  /\ \A k \in 1..qlen : Q[k] \in 1..n /\ L[Q[k]] = k
  /\ \A i \in 1..n : (i \notin members) => L[i] = 0
HeapOrder(way, key, qlen, Q) == \A k \in 2..qlen : Better(way, key[Q[k \div 2]], key[Q[k]])
BestOf(way, members, key, r) == r \in members /\ \A m \in members : Better(way, key[r], key[m])

=============================================================================
