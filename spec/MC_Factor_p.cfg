SPECIFICATION Spec
CONSTANTS
  M = 3
  N = 3
  RealVals = {0, 1, 2}
  ImagVals = {0}
  UDens = {2}
  Perms = "all"
INVARIANT LeadingIdentity
INVARIANT MultiplierBound
INVARIANT UpperNonzeroDiag
INVARIANT SingularReported
INVARIANT SolveCorrect
CHECK_DEADLOCK FALSE
