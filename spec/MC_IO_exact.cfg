SPECIFICATION Spec
CONSTANTS
  N = 3
  MaxNz = 4
  CapRule = "exact"
INVARIANT WriteInCapacity
INVARIANT ResultIsFile
CHECK_DEADLOCK FALSE
