------------------------------ MODULE SluOrder ------------------------------
(***************************************************************************)
(* Column ordering, column elimination tree and postordering (get_perm_c,   *)
(* sp_coletree, TreePostorder, sp_preorder).                                *)
(*   pat   sparsity pattern of A: set of <<row, col>> (0-based)             *)
(*   pc    column permutation as a function 0..n-1 -> 0..n-1                *)
(*         (pc[orig col] = position)                                        *)
(*   trees are functions 0..n-1 -> 1..n, n = virtual root                   *)
(***************************************************************************)
EXTENDS Integers, Sequences, FiniteSets, TLC

Cols(n) == 0 .. (n - 1)
IsPermFn(p, n) == DOMAIN p = Cols(n) /\ {p[i] : i \in Cols(n)} = Cols(n)
InvFn(p, n) == [k \in Cols(n) |-> CHOOSE i \in Cols(n) : p[i] = k]
MinOf(S) == CHOOSE x \in S : \A y \in S : x <= y

\* ---- structures used by the minimum-degree orderings (no diagonal) ----
StructATA(pat, m, n) == {ij \in Cols(n) \X Cols(n) : ij[1] # ij[2] /\ \E r \in 0..(m - 1) : <<r, ij[1]>> \in pat /\ <<r, ij[2]>> \in pat}
StructAplusAT(pat, n) == {ij \in Cols(n) \X Cols(n) : ij[1] # ij[2] /\ (<<ij[1], ij[2]>> \in pat \/ <<ij[2], ij[1]>> \in pat)}

(***************************************************************************)
(* Definition: the column elimination tree of A*Pc is the elimination tree  *)
(* of (A Pc)'(A Pc): parent(j) = smallest i > j such that the Cholesky      *)
(* factor of that pattern has a nonzero at (i, j) (symbolic elimination, no *)
(* cancellation).                                                           *)
(***************************************************************************)
\* adjacency of (A Pc)'(A Pc) in permuted numbering, as a set of 2-element sets
Adj0(pat, m, n, pc) == {{pc[ij[1]], pc[ij[2]]} : ij \in StructATA(pat, m, n)}
RECURSIVE ElimRec(_, _, _, _)
ElimRec(adj, k, n, par) ==
  IF k = n THEN par
  ELSE LET N == {i \in (k + 1)..(n - 1) : {i, k} \in adj}
           fill == {{a, b} : a \in N, b \in N} \ {{a} : a \in N}
       IN ElimRec(adj \cup fill, k + 1, n, [par EXCEPT ![k] = IF N = {} THEN n ELSE MinOf(N)])
ColEtreeDef(pat, m, n, pc) == ElimRec(Adj0(pat, m, n, pc), 0, n, [j \in Cols(n) |-> n])

(***************************************************************************)
(* sp_coletree as written (Liu's algorithm): first-column stars, disjoint   *)
(* sets with path halving.  sets: pp (parent pointer of the union-find),    *)
(* root (column at the root of the partial tree of each set).               *)
(***************************************************************************)
RECURSIVE Find(_, _)
Find(pp, i) == IF pp[i] = i THEN i ELSE Find(pp, pp[i])            \* representative (path halving does not change it)
FirstCol(pat, m, n, pc) == [r \in 0..(m - 1) |-> LET C == {pc[c] : c \in {c2 \in Cols(n) : <<r, c2>> \in pat}} IN IF C = {} THEN n ELSE MinOf(C)]
RowsOfCol(pat, m, col, ipc) == {r \in 0..(m - 1) : <<r, ipc[col]>> \in pat}
RECURSIVE LiuRows(_, _, _, _, _)
\* process the rows of column `col` (any order gives the same tree): st = [pp, root, par, cset]
LiuRows(st, col, R, fc, n) ==
  IF R = {} THEN st
  ELSE LET r == CHOOSE x \in R : TRUE
           row == fc[r] IN
       IF row >= col THEN LiuRows(st, col, R \ {r}, fc, n)
       ELSE LET rset == Find(st.pp, row)
                rroot == st.root[rset] IN
            IF rroot = col THEN LiuRows(st, col, R \ {r}, fc, n)
            ELSE LiuRows([pp |-> [st.pp EXCEPT ![st.cset] = rset], root |-> [st.root EXCEPT ![rset] = col],
                          par |-> [st.par EXCEPT ![rroot] = col], cset |-> rset], col, R \ {r}, fc, n)
RECURSIVE LiuCols(_, _, _, _, _, _, _)
LiuCols(st, col, pat, m, n, ipc, fc) ==
  IF col = n THEN st.par
  ELSE LET s0 == [pp |-> [st.pp EXCEPT ![col] = col], root |-> [st.root EXCEPT ![col] = col], par |-> [st.par EXCEPT ![col] = n], cset |-> col]
       IN LiuCols(LiuRows(s0, col, RowsOfCol(pat, m, col, ipc), fc, n), col + 1, pat, m, n, ipc, fc)
ColEtreeLiu(pat, m, n, pc) ==
  LiuCols([pp |-> [i \in Cols(n) |-> i], root |-> [i \in Cols(n) |-> i], par |-> [i \in Cols(n) |-> n], cset |-> 0],
          0, pat, m, n, InvFn(pc, n), FirstCol(pat, m, n, pc))

(***************************************************************************)
(* Postorder.  Safety: parent > child and every subtree occupies            *)
(* consecutive indices.  Policy (TreePostorder): depth-first from the       *)
(* virtual root, children in increasing order.                              *)
(***************************************************************************)
Kids(par, v, n) == {c \in Cols(n) : par[c] = v}
RECURSIVE Desc(_, _, _)
Desc(par, v, n) == {v} \cup UNION {Desc(par, c, n) : c \in Kids(par, v, n)}
ParentAbove(par, n) == \A j \in Cols(n) : par[j] > j /\ par[j] <= n
Postordered(par, n) == /\ ParentAbove(par, n)
                       /\ \A v \in Cols(n) : Desc(par, v, n) = (v - Cardinality(Desc(par, v, n)) + 1) .. v
RECURSIVE SortedSeq(_)
SortedSeq(S) == IF S = {} THEN <<>> ELSE <<MinOf(S)>> \o SortedSeq(S \ {MinOf(S)})
RECURSIVE DfsOrder(_, _, _)
\* sequence of nodes in the order TreePostorder numbers them (subtree of v, v last; the virtual root n is left out)
DfsOrder(par, v, n) ==
  LET ks == SortedSeq(Kids(par, v, n))
      RECURSIVE Cat(_)
      Cat(i) == IF i > Len(ks) THEN <<>> ELSE DfsOrder(par, ks[i], n) \o Cat(i + 1)
  IN Cat(1) \o (IF v = n THEN <<>> ELSE <<v>>)
PostOf(par, n) == LET s == DfsOrder(par, n, n) IN [v \in 0..n |-> IF v = n THEN n ELSE (CHOOSE k \in 1..Len(s) : s[k] = v) - 1]
\* a tree relabelled by q (q[n] = n)
Relabel(par, q, n) == [k \in Cols(n) |-> q[par[InvFn([i \in Cols(n) |-> q[i]], n)[k]]]]
\* `final` respects `given` up to a postorder of given's own elimination tree
RespectsUpToPostorder(pat, m, n, given, final, sym) ==
  LET et0 == ColEtreeDef(pat, m, n, given)
      q == [k \in 0..n |-> IF k = n THEN n ELSE final[InvFn(given, n)[k]]]           \* position under `given` -> position under `final`
  IN /\ IsPermFn([k \in Cols(n) |-> q[k]], n)
     /\ (sym => \A k \in Cols(n) : q[k] = k)
     /\ \A k \in Cols(n) : q[et0[k]] > q[k]                                            \* a relabelling of the same tree ...
     /\ (~sym => Postordered(Relabel(et0, q, n), n))                                  \* ... in postorder
=============================================================================
