------------------------------ MODULE SluHeap ------------------------------
(***************************************************************************)
(* The binary heap of MC64 (mc64dd_ push up, mc64ed_ delete the root,       *)
(* mc64fd_ delete from the middle) as an abstract priority queue.           *)
(*   members : set of rows in the queue,   key : row -> integer             *)
(* Representation logged after every operation: Q (1..qlen, rows), L (row   *)
(* -> position, 0 = absent).  The contract is representation-independent:   *)
(* Q lists the members once each, L is its inverse, parents are not worse   *)
(* than their children (min-heap for way 2, max-heap for way 1), and the     *)
(* root handed out by an extraction is a best member.                        *)
(* As a generator (SluHeap.cfg) the module enumerates every operation       *)
(* sequence "insert all rows in some order, remove one row from the middle, *)
(* extract the rest" over N rows and the key patterns in Keys.              *)
(***************************************************************************)
EXTENDS SluHeapOps, TLC, Json

\* ---- generator ----
CONSTANTS N, Keys
VARIABLES ins, phase, hist
Rows == 1 .. N
Init == ins = {} /\ phase = "insert" /\ hist = <<>>
Insert(i) == phase = "insert" /\ i \notin ins /\ ins' = ins \cup {i} /\ hist' = Append(hist, <<"I", i>>) /\ UNCHANGED phase
Remove(i) == phase = "insert" /\ ins = Rows /\ phase' = "done" /\ hist' = Append(hist, <<"F", i>>) /\ UNCHANGED ins
Next == (\E i \in Rows : Insert(i) \/ Remove(i))
        \/ (phase = "done" /\ UNCHANGED <<ins, phase, hist>>)
Spec == Init /\ [][Next]_<<ins, phase, hist>>
Emit == phase = "done" => PrintT(ToJson([ops |-> hist]))
=============================================================================
