------------------------------ MODULE SluEquil ------------------------------
(***************************************************************************)
(* Equilibration (?gsequ, ?laqgs) in the log domain DL: every entry is      *)
(* zero ("Z") or +-2^e, so maxima are maxima of exponents, reciprocals      *)
(* negate, products add, and clamping to [smlnum, bignum], overflow and     *)
(* (gradual) underflow are exponent comparisons.  The whole floating-point  *)
(* range of a type is covered with small integers.                          *)
(*   F = [emin, dmin, emax, pexp]: exponent of the smallest normal number   *)
(*       (= smlnum), of the smallest subnormal, of the largest power of     *)
(*       two, and of Precision (eps*base).                                  *)
(* Complex entries a+bi with |a|,|b| in {0, 2^k} and |a| = |b| or one of    *)
(* them zero keep DL closed: |z|1 = 2^k or 2^(k+1).                         *)
(***************************************************************************)
EXTENDS Integers, Sequences, FiniteSets, TLC

Z == -100000      \* exact zero (sentinel, smaller than every exponent)
INF == 100000     \* overflow (sentinel)
FD == [emin |-> -1022, dmin |-> -1074, emax |-> 1023, pexp |-> -52]     \* binary64
FS == [emin |-> -126,  dmin |-> -149,  emax |-> 127,  pexp |-> -23]     \* binary32
FmtOf(ty) == IF ty \in {"d", "z"} THEN FD ELSE FS

IsNum(e) == e # Z /\ e # INF
\* IEEE product of two powers of two (round to nearest even): underflow to zero below the smallest subnormal
Mul(a, b, F) == IF a = Z \/ b = Z THEN Z ELSE IF a = INF \/ b = INF THEN INF
                ELSE LET s == a + b IN IF s < F.dmin THEN Z ELSE IF s > F.emax THEN INF ELSE s
Div(a, b, F) == IF a = Z THEN Z ELSE Mul(a, -b, F)
MaxE(a, b) == IF a = Z THEN b ELSE IF b = Z THEN a ELSE IF a >= b THEN a ELSE b
MinE(a, b) == IF a = Z \/ b = Z THEN Z ELSE IF a <= b THEN a ELSE b
Clamp(e, lo, hi) == IF e < lo THEN lo ELSE IF e > hi THEN hi ELSE e
RECURSIVE FoldMax(_, _)
FoldMax(f, S) == IF S = {} THEN Z ELSE LET x == CHOOSE y \in S : TRUE IN MaxE(f[x], FoldMax(f, S \ {x}))
RECURSIVE FoldMin(_, _)
FoldMin(f, S) == IF Cardinality(S) = 1 THEN f[CHOOSE y \in S : TRUE] ELSE LET x == CHOOSE y \in S : TRUE IN MinE(f[x], FoldMin(f, S \ {x}))
Ge01(e) == e # Z /\ e >= -3                  \* 2^e >= THRESH = 0.1  (2^-3 = 0.125, 2^-4 = 0.0625)

(***************************************************************************)
(* ?gsequ.  A: (i,j) -> magnitude exponent or Z, on Rows x Cols.            *)
(***************************************************************************)
GsEqu(A, m, n, F) ==
  LET I == 0..(m - 1)  J == 0..(n - 1)
      sml == F.emin  big == -F.emin
      r0 == [i \in I |-> FoldMax([j \in J |-> A[<<i, j>>]], J)]
      amax == FoldMax(r0, I)
      zrows == {i \in I : r0[i] = Z}
      R == [i \in I |-> IF r0[i] = Z THEN Z ELSE -Clamp(r0[i], sml, big)]
      rcmin == MinE(big, FoldMin(r0, I))        \* the running minimum starts at bignum
      rowcnd == IF zrows # {} THEN Z ELSE Div(MaxE(rcmin, sml), Clamp(amax, amax, big), F)
      c0 == [j \in J |-> FoldMax([i \in I |-> Mul(A[<<i, j>>], R[i], F)], I)]
      zcols == {j \in J : c0[j] = Z}
      C == [j \in J |-> IF c0[j] = Z THEN Z ELSE -Clamp(c0[j], sml, big)]
      ccmax == FoldMax(c0, J)
      colcnd == IF zcols # {} THEN Z ELSE Div(MaxE(MinE(big, FoldMin(c0, J)), sml), Clamp(ccmax, ccmax, big), F)
  IN IF zrows # {} THEN [info |-> (CHOOSE i \in zrows : \A k \in zrows : i <= k) + 1, R |-> R, C |-> C, rowcnd |-> Z, colcnd |-> Z, amax |-> amax, r0 |-> r0, c0 |-> c0]
     ELSE IF zcols # {} THEN [info |-> m + (CHOOSE j \in zcols : \A k \in zcols : j <= k) + 1, R |-> R, C |-> C, rowcnd |-> rowcnd, colcnd |-> Z, amax |-> amax, r0 |-> r0, c0 |-> c0]
     ELSE [info |-> 0, R |-> R, C |-> C, rowcnd |-> rowcnd, colcnd |-> colcnd, amax |-> amax, r0 |-> r0, c0 |-> c0]

(***************************************************************************)
(* ?laqgs: the documented threshold rule and the application of exactly the *)
(* selected factors to every stored entry.                                  *)
(***************************************************************************)
Decide(g, F) ==
  LET small == F.emin - F.pexp  large == -(F.emin - F.pexp)
      rowok == Ge01(g.rowcnd) /\ g.amax # Z /\ g.amax >= small /\ g.amax <= large
      colok == Ge01(g.colcnd)
  IN IF rowok THEN (IF colok THEN "N" ELSE "C") ELSE (IF colok THEN "R" ELSE "B")
\* exact product of an entry with the selected factors, as an IEEE result
Scaled(e, q, ri, cj, F) ==
  IF e = Z THEN Z
  ELSE LET s == e + (IF q \in {"R", "B"} THEN ri ELSE 0) + (IF q \in {"C", "B"} THEN cj ELSE 0)
       IN IF s < F.dmin THEN Z ELSE IF s > F.emax THEN INF ELSE s

(***************************************************************************)
(* Property-level statements (C11), checked by TLC for every small matrix   *)
(* over a set of exponents spanning the range of the type.                  *)
(***************************************************************************)
FactorsInRange(g, m, n, F) ==
  g.info = 0 => /\ \A i \in 0..(m - 1) : IsNum(g.R[i]) /\ g.R[i] >= F.emin /\ g.R[i] <= -F.emin
                /\ \A j \in 0..(n - 1) : IsNum(g.C[j]) /\ g.C[j] >= F.emin /\ g.C[j] <= -F.emin
\* largest entry of every row of diag(R) A is one, unless the row maximum lies outside the safe range
RowsEquilibrated(A, g, m, n, F) ==
  g.info = 0 => \A i \in 0..(m - 1) :
     (g.r0[i] >= F.emin /\ g.r0[i] <= -F.emin) => FoldMax([j \in 0..(n - 1) |-> Mul(A[<<i, j>>], g.R[i], F)], 0..(n - 1)) = 0
ColsEquilibrated(A, g, m, n, F) ==
  g.info = 0 => \A j \in 0..(n - 1) :
     (g.c0[j] >= F.emin) => FoldMax([i \in 0..(m - 1) |-> Mul(Mul(A[<<i, j>>], g.R[i], F), g.C[j], F)], 0..(m - 1)) = 0
\* an all-zero row or column is reported by its position
ZeroLineReported(A, g, m, n) ==
  /\ (\E i \in 0..(m - 1) : \A j \in 0..(n - 1) : A[<<i, j>>] = Z) =>
        g.info \in 1..m /\ (\A j \in 0..(n - 1) : A[<<g.info - 1, j>>] = Z) /\ (\A i \in 0..(g.info - 2) : \E j \in 0..(n - 1) : A[<<i, j>>] # Z)
  \* (a column whose entries all underflow when multiplied by the row factors counts as zero: the code, like
  \*  LAPACK's xGEEQU, cannot tell it from an empty one)
  /\ ((\A i \in 0..(m - 1) : \E j \in 0..(n - 1) : A[<<i, j>>] # Z) /\ (\E j \in 0..(n - 1) : \A i \in 0..(m - 1) : A[<<i, j>>] = Z)) =>
        g.info > m /\ g.c0[g.info - m - 1] = Z /\ (\A j \in 0..(g.info - m - 2) : g.c0[j] # Z)
=============================================================================
