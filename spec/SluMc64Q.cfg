SPECIFICATION Spec
CONSTANTS N = 5
LEGACY = FALSE
INVARIANT ReadsWhatWasParked
INVARIANT NoCollision
CHECK_DEADLOCK FALSE
