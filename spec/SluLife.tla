------------------------------ MODULE SluLife ------------------------------
(***************************************************************************)
(* API lifecycles (C19): which library-owned objects the caller holds      *)
(* between calls, and which calls the documentation allows next.           *)
(*   lu   "none" | "sys" (factors in library allocations) | "user" (factors  *)
(*        inside the caller's workspace)                                    *)
(*   ok   the factors held are those of a successful factorization          *)
(* Every call outcome of interest is an action: success, singular result,   *)
(* out-of-space return, size query.  The ledger discipline the trace        *)
(* specification enforces on each step: blocks allocated by a call and not  *)
(* handed to the caller are gone when it returns (no leak), each block is   *)
(* freed exactly once, guard bytes are intact; after the caller destroyed   *)
(* what it was handed nothing is left.                                      *)
(***************************************************************************)
EXTENDS Integers, Sequences, TLC, Json
CONSTANT MaxLen
VARIABLES life, lu, ok, via     \* via: "x" when the factors held were produced by the expert driver (etree, equed, R, C, Glu are then held too)
vars == <<life, lu, ok, via>>
Init == life = <<>> /\ lu = "none" /\ ok = FALSE /\ via = "-"
Do(a, lu2, ok2) == Len(life) < MaxLen /\ life' = Append(life, a) /\ lu' = lu2 /\ ok' = ok2
                   /\ via' = IF lu2 = "none" THEN "-" ELSE IF a \in {"gssvx", "gssvx_singular", "gssvx_userwork", "samepattern", "samerowperm", "samerowperm_singular"} THEN "x"
                             ELSE IF lu = "none" THEN "o" ELSE via
\* fresh factorizations (caller holds no factors)
Fresh == lu = "none" /\
   \/ Do("gssv", "sys", TRUE) \/ Do("gssv_singular", "sys", FALSE)
   \/ Do("gssvx", "sys", TRUE) \/ Do("gssvx_singular", "sys", FALSE)
   \/ Do("gssvx_userwork", "user", TRUE) \/ Do("gssvx_shortwork", "none", FALSE)
   \/ Do("gssvx_failalloc", "none", FALSE)
   \/ Do("gstrf", "sys", TRUE) \/ Do("gstrf_singular", "sys", FALSE)
   \/ Do("gsisx", "sys", TRUE) \/ Do("gsisx_shortwork", "none", FALSE)
\* calls that need the factors of a successful factorization
Reuse == lu = "sys" /\ ok /\ via = "x" /\
   \/ Do("samepattern", "sys", TRUE) \/ Do("samerowperm", "sys", TRUE) \/ Do("samerowperm_singular", "sys", FALSE)
Solve == lu # "none" /\ ok /\ ((via = "x" /\ Do("factored", lu, TRUE)) \/ Do("gstrs", lu, TRUE) \/ Do("gscon", lu, TRUE))
\* calls that are legal in any state and hand nothing to the caller
AnyTime == Do("query", lu, ok) \/ Do("order", lu, ok) \/ Do("equ", lu, ok) \/ Do("rejected", lu, ok)
Destroy == lu # "none" /\ Do(IF lu = "user" THEN "destroyLUuser" ELSE "destroyLU", "none", FALSE)
Next == Fresh \/ Reuse \/ Solve \/ AnyTime \/ Destroy
Spec == Init /\ [][Next]_vars
Emit == life = <<>> \/ PrintT(ToJson([life |-> life, lu |-> lu]))
=============================================================================
