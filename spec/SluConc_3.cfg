SPECIFICATION Spec
CONSTANTS
  Procs = {0, 1, 2}
  Steps = 3
INVARIANT Independent
INVARIANT Emit
CHECK_DEADLOCK FALSE
