------------------------------ MODULE SluMatch ------------------------------
(***************************************************************************)
(* Large-diagonal row permutation (?ldperm / MC64 job 5) on the log domain: *)
(* entries +-2^e, so the product of diagonal magnitudes is 2^(sum of        *)
(* exponents) and the scaling clause is linear in exponents.                *)
(*   W   <<row, col>> -> exponent, defined exactly on the nonzero pattern   *)
(*   p   row -> column it is matched with (the row is moved to that         *)
(*       position: the entry becomes the diagonal entry p[i])               *)
(***************************************************************************)
EXTENDS Integers, Sequences, FiniteSets, TLC

Ix0(n) == 0 .. (n - 1)
IsMatching(p, W, n) == /\ DOMAIN p = Ix0(n) /\ {p[i] : i \in Ix0(n)} = Ix0(n)
                       /\ \A i \in Ix0(n) : <<i, p[i]>> \in DOMAIN W
AllMatchings(W, n) == {p \in [Ix0(n) -> Ix0(n)] : IsMatching(p, W, n)}
RECURSIVE SumExp(_, _, _)
SumExp(p, W, k) == IF k < 0 THEN 0 ELSE W[<<k, p[k]>>] + SumExp(p, W, k - 1)
Value(p, W, n) == SumExp(p, W, n - 1)
\* maximum of the product of diagonal magnitudes over all perfect matchings (as a sum of exponents)
MaxValue(W, n) == LET S == {Value(p, W, n) : p \in AllMatchings(W, n)} IN CHOOSE x \in S : \A y \in S : y <= x
StructSingular(W, n) == AllMatchings(W, n) = {}
\* Hall's condition on the columns (same oracle as SluFactor!StructurallySingular)
HallViolated(W, n) == \E S \in SUBSET Ix0(n) : Cardinality({i \in Ix0(n) : \E c \in S : <<i, c>> \in DOMAIN W}) < Cardinality(S)
\* scalings exp(u_i), exp(v_j) in units of ln 2: every scaled entry at most one, matched entries exactly one
DualFeasible(u, v, p, W, n) == /\ \A ij \in DOMAIN W : u[ij[1]] + W[ij] + v[ij[2]] <= 0
                               /\ \A i \in Ix0(n) : u[i] + W[<<i, p[i]>>] + v[p[i]] = 0
=============================================================================
