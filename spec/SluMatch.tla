------------------------------ MODULE SluMatch ------------------------------
(***************************************************************************)
(* Large-diagonal row permutation (?ldperm / MC64 job 5) on the log domain: *)
(* entries +-2^e, so the product of diagonal magnitudes is 2^(sum of        *)
(* exponents) and the scaling clause is linear in exponents.                *)
(*   W   <<row, col>> -> exponent, defined exactly on the nonzero pattern   *)
(*   p   row -> column it is matched with (the row is moved to that         *)
(*       position: the entry becomes the diagonal entry p[i])               *)
(***************************************************************************)
EXTENDS Integers, Sequences, FiniteSets, TLC

Ix0(n) == 0 .. (n - 1)
IsMatching(p, W, n) == /\ DOMAIN p = Ix0(n) /\ {p[i] : i \in Ix0(n)} = Ix0(n)
                       /\ \A i \in Ix0(n) : <<i, p[i]>> \in DOMAIN W
AllMatchings(W, n) == {p \in [Ix0(n) -> Ix0(n)] : IsMatching(p, W, n)}
RECURSIVE SumExp(_, _, _)
SumExp(p, W, k) == IF k < 0 THEN 0 ELSE W[<<k, p[k]>>] + SumExp(p, W, k - 1)
Value(p, W, n) == SumExp(p, W, n - 1)
\* maximum of the product of diagonal magnitudes over all perfect matchings (as a sum of exponents)
MaxValue(W, n) == LET S == {Value(p, W, n) : p \in AllMatchings(W, n)} IN CHOOSE x \in S : \A y \in S : y <= x
StructSingular(W, n) == AllMatchings(W, n) = {}
\* the same maximum by recursion over the rows (n! instead of n^n candidates; used by the trace verdict for n > 5).
\* NEG stands for "no perfect matching below this point".
NEG == -100000000
RECURSIVE Best(_, _, _, _)
Best(W, n, k, used) ==
  IF k = n THEN 0
  ELSE LET S == {W[<<k, j>>] + Best(W, n, k + 1, used \cup {j}) : j \in {c \in Ix0(n) \ used : <<k, c>> \in DOMAIN W}}
           F == {x \in S : x > NEG \div 2}
       IN IF F = {} THEN NEG ELSE CHOOSE x \in F : \A y \in F : y <= x
MaxValueRec(W, n) == Best(W, n, 0, {})
\* Hall's condition on the columns (same oracle as SluFactor!StructurallySingular)
HallViolated(W, n) == \E S \in SUBSET Ix0(n) : Cardinality({i \in Ix0(n) : \E c \in S : <<i, c>> \in DOMAIN W}) < Cardinality(S)
\* scalings exp(u_i), exp(v_j) in units of ln 2: every scaled entry at most one, matched entries exactly one
\* Weak duality is what lets the verdict certify optimality without enumeration: if (u, v) is feasible and tight on p then
\* for any matching q, Value(q) = sum W[i,q[i]] <= -sum u - sum v = Value(p).  MC_Match checks it for every 3 x 3 pattern.
DualFeasible(u, v, p, W, n) == /\ \A ij \in DOMAIN W : u[ij[1]] + W[ij] + v[ij[2]] <= 0
                               /\ \A i \in Ix0(n) : u[i] + W[<<i, p[i]>>] + v[p[i]] = 0
=============================================================================
