SPECIFICATION Spec
CONSTANTS
  M = 2
  N = 2
  RealVals = {0, 1, 2}
  ImagVals = {0, 1}
  UDens = {1, 4}
  Perms = "all"
INVARIANT LeadingIdentity
INVARIANT MultiplierBound
INVARIANT UpperNonzeroDiag
INVARIANT SingularReported
INVARIANT SolveCorrect
CHECK_DEADLOCK FALSE
