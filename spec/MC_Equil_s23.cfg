SPECIFICATION Spec
CONSTANTS
  M = 2
  N = 3
  WIDE = FALSE
  TY = "s"
INVARIANT InvRange
INVARIANT InvRows
INVARIANT InvCols
INVARIANT InvZero
INVARIANT InvEqued
CHECK_DEADLOCK FALSE
