------------------------------- MODULE SluCond -------------------------------
(***************************************************************************)
(* The 1-norm estimator ?lacon2 (Hager / Higham), the reverse-communication *)
(* automaton exactly as the routine is written, over exact rationals.       *)
(* The caller applies an operator B (kase = 1) or its transpose (kase = 2)  *)
(* between calls; ?gscon uses B = inv(L U) to obtain the reciprocal         *)
(* condition number, ?gsrfs uses inv(op(A)) diag(W) for the forward error.  *)
(* Real arithmetic only: the complex variant measures moduli (square roots) *)
(* and is outside exact rational arithmetic.                                *)
(* State st = [kase, jump, j, iter, est, estold, x, isgn, calls].           *)
(***************************************************************************)
EXTENDS Integers, Sequences, FiniteSets, Rat

Ix(n) == 1..n
RECURSIVE RSumSeq(_, _)
RSumSeq(s, k) == IF k = 0 THEN RZero ELSE RAdd(s[k], RSumSeq(s, k - 1))
Asum(x, n) == RSumSeq([i \in Ix(n) |-> RAbs(x[i])], n)
SignOf(r) == IF r[1] >= 0 THEN ROne ELSE RNeg(ROne)            \* d_sign(one, x): zero counts as positive
\* idamax: first index of the largest magnitude
Imax(x, n) == CHOOSE i \in Ix(n) : (\A k \in Ix(n) : RLe(RAbs(x[k]), RAbs(x[i]))) /\ (\A k \in 1..(i - 1) : RLt(RAbs(x[k]), RAbs(x[i])))
Unit(j, n) == [i \in Ix(n) |-> IF i = j THEN ROne ELSE RZero]
AltSgn(n) == [i \in Ix(n) |-> LET a == RAdd(ROne, Norm(i - 1, n - 1)) IN IF i % 2 = 1 THEN a ELSE RNeg(a)]

LaconInit(n) == [kase |-> 1, jump |-> 1, j |-> 0, iter |-> 0, est |-> RZero, estold |-> RZero,
                 x |-> [i \in Ix(n) |-> Norm(1, n)], isgn |-> [i \in Ix(n) |-> ROne], calls |-> 1]
Final(st, est) == [st EXCEPT !.kase = 0, !.est = est, !.calls = st.calls + 1]
Stage5(st, n) == [st EXCEPT !.x = AltSgn(n), !.kase = 1, !.jump = 5, !.calls = st.calls + 1]
MainLoop(st, n, j, iter) == [st EXCEPT !.x = Unit(j, n), !.kase = 1, !.jump = 3, !.j = j, !.iter = iter, !.calls = st.calls + 1]

\* one call of ?lacon2 after the caller has overwritten x with B x (kase 1) or B' x (kase 2)
LaconStep(st, n) ==
  CASE st.jump = 1 ->
         IF n = 1 THEN Final(st, RAbs(st.x[1]))
         ELSE LET sg == [i \in Ix(n) |-> SignOf(st.x[i])] IN
              [st EXCEPT !.est = Asum(st.x, n), !.x = sg, !.isgn = sg, !.kase = 2, !.jump = 2, !.calls = st.calls + 1]
    [] st.jump = 2 -> MainLoop(st, n, Imax(st.x, n), 2)
    [] st.jump = 3 ->
         LET est2 == Asum(st.x, n)
             sg == [i \in Ix(n) |-> SignOf(st.x[i])]
             st2 == [st EXCEPT !.estold = st.est, !.est = est2] IN
         IF sg = st.isgn \/ RLe(est2, st.est) THEN Stage5(st2, n)        \* repeated sign vector, or cycling
         ELSE [st2 EXCEPT !.x = sg, !.isgn = sg, !.kase = 2, !.jump = 4, !.calls = st.calls + 1]
    [] st.jump = 4 ->
         LET jnew == Imax(st.x, n) IN
         IF st.x[st.j] # RAbs(st.x[jnew]) /\ st.iter < 5 THEN MainLoop(st, n, jnew, st.iter + 1)
         ELSE Stage5([st EXCEPT !.j = jnew], n)
    [] st.jump = 5 ->
         LET temp == RDiv(RMul(<<2, 1>>, Asum(st.x, n)), <<3 * n, 1>>) IN
         Final(st, IF RLt(st.est, temp) THEN temp ELSE st.est)

\* the caller's part: x := B x  or  x := B' x      (B: <<i,j>> -> rational, 1-based)
Apply(st, B, n) ==
  [st EXCEPT !.x = [i \in Ix(n) |-> RSumSeq([k \in Ix(n) |-> RMul(IF st.kase = 1 THEN B[<<i, k>>] ELSE B[<<k, i>>], st.x[k])], n)]]
Norm1(B, n) == RMaxOf({RSumSeq([i \in Ix(n) |-> RAbs(B[<<i, j>>])], n) : j \in Ix(n)})
=============================================================================
