------------------------------ MODULE SluHist ------------------------------
(***************************************************************************)
(* Call histories of the expert driver on one sparsity pattern (C06).       *)
(* State between calls: whether factors of a successful factorization are   *)
(* held (L, U, perm_c, perm_r, etree, Glu, equed, R, C).  A step is a       *)
(* caller action on the values followed by a call with one Fact mode;       *)
(* guards are the documented preconditions.  TLC enumerates every history   *)
(* up to MaxLen; each is printed and turned into a harness script.          *)
(***************************************************************************)
EXTENDS Integers, Sequences, TLC, Json
CONSTANT MaxLen
Changes == {"same", "perturb", "unrelated", "rescale", "zeropiv", "shrinkpiv"}
VARIABLES hist, held      \* held: factors of the current values are held (TRUE), of other values of the pattern ("old"), none (FALSE)
vars == <<hist, held>>
Init == hist = <<>> /\ held = "none"
Step(kind, change) ==
  /\ Len(hist) < MaxLen
  /\ hist' = Append(hist, <<kind, change>>)
  /\ held' = "cur"
DoFact == \E ch \in {"same", "unrelated"} : (hist = <<>> => ch = "same") /\ Step("DOFACT", ch)
\* reuse of the column ordering: needs an earlier factorization of the same pattern
SamePattern == held # "none" /\ \E ch \in Changes : Step("SamePattern", ch)
\* reuse of ordering, row pivots and storage
SameRowPerm == held # "none" /\ \E ch \in Changes : Step("SamePattern_SameRowPerm", ch)
\* re-solve with the factors held: values must be the ones that were factored
Factored == held = "cur" /\ Step("FACTORED", "same")
Next == DoFact \/ SamePattern \/ SameRowPerm \/ Factored
Spec == Init /\ [][Next]_vars
\* every reachable history is emitted once
Emit == hist = <<>> \/ PrintT(ToJson([hist |-> hist]))
\* the documented preconditions hold along every generated history
Pre == \A i \in 1..Len(hist) : (hist[i][1] # "DOFACT" => i > 1) /\ (hist[i][1] = "FACTORED" => hist[i][2] = "same")
=============================================================================
