SPECIFICATION Spec
CONSTANT N = 3
INVARIANT SweepIsFill
CHECK_DEADLOCK FALSE
