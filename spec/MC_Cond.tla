------------------------------- MODULE MC_Cond -------------------------------
(***************************************************************************)
(* Every operator B over a small value set: the estimate never exceeds the  *)
(* true 1-norm (the estimate is one-sided by construction), at most five    *)
(* main-loop iterations, termination after a bounded number of calls.       *)
(***************************************************************************)
EXTENDS SluCond, TLC
CONSTANTS N, Vals
ValsA == {-2, -1, 0, 1, 3}
ValsB == {-1, 0, 2}
VARIABLES B, st, phase        \* phase: "apply" (caller's turn) or "lacon"
vars == <<B, st, phase>>
Init == /\ B \in [Ix(N) \X Ix(N) -> {<<v, 1>> : v \in Vals}]
        /\ st = LaconInit(N) /\ phase = "apply"
CallerApplies == phase = "apply" /\ st.kase # 0 /\ st' = Apply(st, B, N) /\ phase' = "lacon" /\ UNCHANGED B
Lacon == phase = "lacon" /\ st' = LaconStep(st, N) /\ phase' = "apply" /\ UNCHANGED B
Next == CallerApplies \/ Lacon
Spec == Init /\ [][Next]_vars
EstLeTrue == RLe(st.est, Norm1(B, N))
IterBound == st.iter <= 5 /\ st.calls <= 12
\* when the estimator has finished, a nonzero operator has a positive estimate
Positive == (st.kase = 0 /\ Norm1(B, N) # RZero) => ~RIsZero(st.est)
=============================================================================
