------------------------------ MODULE SluSolve ------------------------------
(***************************************************************************)
(* Triangular solves, products and the driver-level solve ?gstrs, on the    *)
(* dense abstractions of the factors (SluStore!DenseL / DenseU):            *)
(*   DL (i,j) -> value, unit lower triangular (n x n part used here)        *)
(*   DU (i,j) -> value, upper triangular                                    *)
(* Vectors are functions 0..n-1 -> value.  All arithmetic is exact.         *)
(***************************************************************************)
EXTENDS Integers, Sequences, FiniteSets, Rat

Idx(n) == 0 .. (n - 1)
RECURSIVE SumTo(_, _, _)
SumTo(F(_), lo, hi) == IF lo > hi THEN CZero ELSE CAdd(F(lo), SumTo(F, lo + 1, hi))
Op(z, conj) == IF conj THEN CConj(z) ELSE z

\* ---- the eight variants of sp_?trsv, as the header documents them ----
\* uplo "L": solve with L (unit or not), "U": with U; trans "N" / "T" / "C"
RECURSIVE FwdRec(_, _, _, _, _, _)
\* forward substitution with matrix T(i,k) (lower), result as a sequence built left to right
FwdRec(T(_, _), b, n, unit, i, acc) ==
  IF i = n THEN acc
  ELSE LET s == SumTo(LAMBDA k : CMul(T(i, k), acc[k + 1]), 0, i - 1)
           v == CSub(b[i], s)
       IN FwdRec(T, b, n, unit, i + 1, Append(acc, IF unit THEN v ELSE CDiv(v, T(i, i))))
RECURSIVE BwdRec(_, _, _, _, _, _)
\* back substitution with upper T; acc holds x[i+1..n-1] (in order)
BwdRec(T(_, _), b, n, unit, i, acc) ==
  IF i < 0 THEN acc
  ELSE LET s == SumTo(LAMBDA k : CMul(T(i, k), acc[k - i]), i + 1, n - 1)
           v == CSub(b[i], s)
       IN BwdRec(T, b, n, unit, i - 1, <<IF unit THEN v ELSE CDiv(v, T(i, i))>> \o acc)
SeqToVec(s, n) == [i \in Idx(n) |-> s[i + 1]]

\* x := inv(op(T)) x   --  uplo \in {"L","U"}, trans \in {"N","T","C"}, unit \in BOOLEAN
Trsv(uplo, trans, unit, DL, DU, b, n) ==
  LET M(i, k) == IF uplo = "L" THEN DL[<<i, k>>] ELSE DU[<<i, k>>]
      MT(i, k) == Op(M(k, i), trans = "C")
  IN IF uplo = "L" /\ trans = "N" THEN SeqToVec(FwdRec(M, b, n, unit, 0, <<>>), n)
     ELSE IF uplo = "U" /\ trans = "N" THEN SeqToVec(BwdRec(M, b, n, unit, n - 1, <<>>), n)
     ELSE IF uplo = "L" THEN SeqToVec(BwdRec(MT, b, n, unit, n - 1, <<>>), n)      \* L' is upper
     ELSE SeqToVec(FwdRec(MT, b, n, unit, 0, <<>>), n)                              \* U' is lower

\* y := alpha*op(A)*x + beta*y   (A is m x n; op(A) is m x n or n x m)
Gemv(trans, alpha, A, m, n, x, beta, y) ==
  LET rows == IF trans = "N" THEN m ELSE n
      cols == IF trans = "N" THEN n ELSE m
      E(i, k) == IF trans = "N" THEN A[<<i, k>>] ELSE Op(A[<<k, i>>], trans = "C")
  IN [i \in Idx(rows) |-> CAdd(CMul(alpha, SumTo(LAMBDA k : CMul(E(i, k), x[k]), 0, cols - 1)), CMul(beta, y[i]))]

(***************************************************************************)
(* ?gstrs as the code performs it (permute, L-solve, U-solve, permute; the  *)
(* transposed order for TRANS / CONJ).  pr, pc: 0-based permutations given  *)
(* as functions on 0..n-1 (pr[orig row] = position, pc[orig col] = position)*)
(***************************************************************************)
Gstrs(trans, DL, DU, pr, pc, b, n) ==
  IF trans = "N" THEN
     LET pb == [k \in Idx(n) |-> b[CHOOSE i \in Idx(n) : pr[i] = k]]      \* soln[perm_r[k]] = rhs[k]
         y == Trsv("L", "N", TRUE, DL, DU, pb, n)
         z == Trsv("U", "N", FALSE, DL, DU, y, n)
     IN [k \in Idx(n) |-> z[pc[k]]]                                          \* soln[k] = rhs[perm_c[k]]
  ELSE
     LET pb == [k \in Idx(n) |-> b[CHOOSE i \in Idx(n) : pc[i] = k]]      \* soln[perm_c[k]] = rhs[k]
         w == Trsv("U", trans, FALSE, DL, DU, pb, n)
         v == Trsv("L", trans, TRUE, DL, DU, w, n)
     IN [k \in Idx(n) |-> v[pr[k]]]                                          \* soln[k] = rhs[perm_r[k]]

\* op(A) x = b, entrywise exact
Solves(A, n, trans, x, b) ==
  \A i \in Idx(n) : SumTo(LAMBDA k : CMul(IF trans = "N" THEN A[<<i, k>>] ELSE Op(A[<<k, i>>], trans = "C"), x[k]), 0, n - 1) = b[i]
=============================================================================
