------------------------------ MODULE SluMc64Q ------------------------------
(***************************************************************************)
(* The queue layout of MC64's shortest-path search (mc64wd_), the part in   *)
(* which defect 9.18 lived.  One array Q(1..N) serves three purposes during *)
(* the start of a pass:                                                     *)
(*   - a temporary list of the matched rows met in the root column,         *)
(*     Q(1..q0)                      (LEGACY layout only),                   *)
(*   - the binary heap of rows with distance above the minimum, Q(1..qlen), *)
(*   - the list Q2 of rows at the minimum distance, Q(low..N), growing down.*)
(* The model abstracts distances to the three classes that decide where a   *)
(* row goes: "min" (into Q2), "far" (into the heap), "cut" (pruned).        *)
(* cls[k] is the class of the k-th queued row of the root column.           *)
(* LEGACY = TRUE: rows are parked in Q(1..q0) and read back while Q2 and the *)
(* heap are written; LEGACY = FALSE: the root column is scanned again and    *)
(* nothing is parked (the repaired code).                                    *)
(* Invariant ReadsWhatWasParked: every row read back is the row parked at    *)
(* that position.  TLC finds the overwrite for N = 4 (three queued rows, two *)
(* of them at the minimum) under LEGACY and none otherwise.                  *)
(***************************************************************************)
EXTENDS Integers, Sequences, FiniteSets, TLC
CONSTANTS N, LEGACY
Classes == {"min", "far", "cut"}
VARIABLES cls,      \* sequence of classes of the queued rows (length q0 <= N - 1: at least one row is unmatched)
          Q,        \* the shared array, 1..N; 0 = never written; k > 0 = "row parked k-th"; -k = row k placed in heap / Q2
          kk,       \* next list position to read
          qlen, low,
          ok        \* FALSE once a read returned something else than what was parked
vars == <<cls, Q, kk, qlen, low, ok>>
Init == /\ cls \in UNION {[1..q -> Classes] : q \in 0..(N - 1)}
        /\ (Len(cls) > 0 => \E k \in DOMAIN cls : cls[k] = "min")          \* (dmin is attained by some queued row, if any)
        /\ Q = [i \in 1..N |-> IF LEGACY /\ i <= Len(cls) THEN i ELSE 0]
        /\ kk = 1 /\ qlen = 0 /\ low = N + 1 /\ ok = TRUE
\* one iteration of the initialisation loop for the kk-th queued row
Step == /\ kk <= Len(cls)
        /\ LET row == IF LEGACY THEN Q[kk] ELSE kk              \* the repaired code finds the row in the column itself
               good == row = kk
               c == cls[kk]
           IN /\ ok' = (ok /\ good)
              /\ IF c = "cut" THEN UNCHANGED <<Q, qlen, low>>
                 ELSE IF c = "min" THEN /\ low' = low - 1 /\ Q' = [Q EXCEPT ![low - 1] = -kk] /\ UNCHANGED qlen
                 ELSE \* heap insertion: writes only inside Q(1..qlen+1) (sift-up moves entries among these positions)
                      /\ qlen' = qlen + 1 /\ Q' = [Q EXCEPT ![qlen + 1] = -kk] /\ UNCHANGED low
        /\ kk' = kk + 1 /\ UNCHANGED cls
Next == Step \/ (kk > Len(cls) /\ UNCHANGED vars)
Spec == Init /\ [][Next]_vars
ReadsWhatWasParked == ok
\* the heap never runs into Q2 (both layouts)
NoCollision == qlen < low
=============================================================================
