SPECIFICATION Spec
CONSTANTS N = 6
Keys = 0
INVARIANT Emit
CHECK_DEADLOCK FALSE
