------------------------------ MODULE MC_Order ------------------------------
(***************************************************************************)
(* For every sparsity pattern up to M x N and every column permutation:     *)
(* Liu's algorithm (as coded) yields the tree of the definition, parents    *)
(* lie above children, and TreePostorder's relabelling is a postorder whose *)
(* relabelled tree is the tree of the relabelled matrix.                    *)
(***************************************************************************)
EXTENDS SluOrder
CONSTANTS M, N, PERMS
VARIABLES pat, pc
AllPermFns == {p \in [Cols(N) -> Cols(N)] : {p[i] : i \in Cols(N)} = Cols(N)}
Init == /\ pat \in SUBSET ((0..(M - 1)) \X Cols(N))
        /\ pc \in (IF PERMS = "all" THEN AllPermFns ELSE {[i \in Cols(N) |-> i]})
Next == UNCHANGED <<pat, pc>>
Spec == Init /\ [][Next]_<<pat, pc>>
Et == ColEtreeDef(pat, M, N, pc)
LiuIsDef == ColEtreeLiu(pat, M, N, pc) = Et
HeapOrdered == ParentAbove(Et, N)
Post == PostOf(Et, N)
PcPost == [i \in Cols(N) |-> Post[pc[i]]]
PostorderCorrect == /\ IsPermFn(PcPost, N)
                    /\ Postordered(Relabel(Et, Post, N), N)
                    /\ Relabel(Et, Post, N) = ColEtreeDef(pat, M, N, PcPost)
                    /\ RespectsUpToPostorder(pat, M, N, pc, PcPost, FALSE)
=============================================================================
