SPECIFICATION Spec
CONSTANTS
  M = 4
  N = 4
  PERMS = "id"
INVARIANT LiuIsDef
INVARIANT HeapOrdered
INVARIANT PostorderCorrect
CHECK_DEADLOCK FALSE
