-------------------------------- MODULE Rat --------------------------------
(***************************************************************************)
(* Exact arithmetic for the specification: rationals <<num, den>> (den > 0, *)
(* lowest terms) and Gaussian rationals <<re, im>>.  TLC integers are       *)
(* 32-bit, so every operator is used only on the exact domain D2 (DESIGN   *)
(* section 3): the callers test `Small` on every stored value before the   *)
(* next operation, which keeps all intermediates below 2^31.                *)
(***************************************************************************)
EXTENDS Integers, Sequences, FiniteSets

Abs(x) == IF x < 0 THEN -x ELSE x
Max2(a, b) == IF a > b THEN a ELSE b
Min2(a, b) == IF a < b THEN a ELSE b

RECURSIVE Gcd(_, _)
Gcd(a, b) == IF b = 0 THEN a ELSE Gcd(b, a % b)

Norm(n, d) ==
  IF n = 0 THEN <<0, 1>>
  ELSE LET g  == Gcd(Abs(n), Abs(d))
           sg == IF d < 0 THEN -1 ELSE 1
       IN <<sg * (n \div g), sg * (d \div g)>>

RZero == <<0, 1>>
ROne  == <<1, 1>>
RNeg(a) == <<-a[1], a[2]>>
RAbs(a) == <<Abs(a[1]), a[2]>>
RIsZero(a) == a[1] = 0
\* addition over the least common denominator (keeps dyadic operands small)
RAdd(a, b) ==
  IF a[1] = 0 THEN b ELSE IF b[1] = 0 THEN a ELSE
  LET g == Gcd(a[2], b[2]) IN Norm(a[1] * (b[2] \div g) + b[1] * (a[2] \div g), (a[2] \div g) * b[2])
RSub(a, b) == RAdd(a, RNeg(b))
RMul(a, b) == IF a[1] = 0 \/ b[1] = 0 THEN RZero ELSE
              LET g1 == Gcd(Abs(a[1]), b[2])  g2 == Gcd(Abs(b[1]), a[2]) IN
              <<(a[1] \div g1) * (b[1] \div g2), (a[2] \div g2) * (b[2] \div g1)>>
RInv(a) == IF a[1] < 0 THEN <<-a[2], -a[1]>> ELSE <<a[2], a[1]>>
RDiv(a, b) == RMul(a, RInv(b))
RLe(a, b) == a[1] * b[2] <= b[1] * a[2]
RLt(a, b) == a[1] * b[2] < b[1] * a[2]
REq(a, b) == a = b
RMaxOf(S) == CHOOSE x \in S : \A y \in S : RLe(y, x)

IsPow2Int(k) == k > 0 /\ \E e \in 0..30 : k = 2^e
RIsPow2(a) == IsPow2Int(Abs(a[1])) /\ IsPow2Int(a[2])      \* +-2^k, k any integer
RDyadic(a) == IsPow2Int(a[2])

\* value = num * 2^(-ld): the trace encoding [num, ld] of an exactly representable float
DyOK(p) == /\ Len(p) = 2
           /\ Abs(p[1]) < 2^30
           /\ p[2] >= -30 /\ p[2] <= 30
           /\ (p[2] < 0 => Abs(p[1]) < 2^(30 + p[2]))
Dy(p) == IF p[2] >= 0 THEN Norm(p[1], 2^p[2]) ELSE <<p[1] * 2^(-p[2]), 1>>

\* "small" = safe operand for one more multiply-add without 32-bit overflow
SmallBound == 1000
RSmall(a) == Abs(a[1]) <= SmallBound /\ a[2] <= SmallBound

(***************************************************************************)
(* Gaussian rationals.  Real data is carried with a zero imaginary part.    *)
(* |z|1 = |re| + |im| is the magnitude SuperLU uses for complex pivoting,   *)
(* scaling, growth and backward error.                                      *)
(***************************************************************************)
CZero == <<RZero, RZero>>
COne  == <<ROne, RZero>>
CReal(a) == <<a, RZero>>
CIsZero(z) == z[1][1] = 0 /\ z[2][1] = 0
CIsReal(z) == z[2][1] = 0
CNeg(z) == <<RNeg(z[1]), RNeg(z[2])>>
CConj(z) == <<z[1], RNeg(z[2])>>
CAdd(x, y) == <<RAdd(x[1], y[1]), RAdd(x[2], y[2])>>
CSub(x, y) == <<RSub(x[1], y[1]), RSub(x[2], y[2])>>
CMul(x, y) ==
  IF CIsReal(x) /\ CIsReal(y) THEN <<RMul(x[1], y[1]), RZero>>
  ELSE <<RSub(RMul(x[1], y[1]), RMul(x[2], y[2])), RAdd(RMul(x[1], y[2]), RMul(x[2], y[1]))>>
CAbs1(z) == RAdd(RAbs(z[1]), RAbs(z[2]))
\* a "unit pivot": +-2^k or +-2^k*i -- exactly the divisors by which IEEE (Smith) division is exact
CIsPow2(z) == \/ (RIsZero(z[2]) /\ RIsPow2(z[1]))
              \/ (RIsZero(z[1]) /\ RIsPow2(z[2]))
\* division by a unit pivot only
CDivU(x, p) ==
  IF RIsZero(p[2]) THEN <<RDiv(x[1], p[1]), RDiv(x[2], p[1])>>
  ELSE \* x / (i*b) = -i*x/b = (x.im - i x.re)/b
       <<RDiv(x[2], p[2]), RNeg(RDiv(x[1], p[2]))>>
\* general division (exact): x / p = x * conj(p) / (re^2 + im^2)
CDiv(x, p) ==
  IF RIsZero(p[2]) THEN <<RDiv(x[1], p[1]), RDiv(x[2], p[1])>>
  ELSE LET d == RAdd(RMul(p[1], p[1]), RMul(p[2], p[2]))
           q == CMul(x, CConj(p))
       IN <<RDiv(q[1], d), RDiv(q[2], d)>>
CSmall(z) == RSmall(z[1]) /\ RSmall(z[2])
CDyadic(z) == RDyadic(z[1]) /\ RDyadic(z[2])
=============================================================================
