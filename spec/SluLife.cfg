SPECIFICATION Spec
CONSTANT MaxLen = 4
INVARIANT Emit
CHECK_DEADLOCK FALSE
