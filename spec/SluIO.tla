-------------------------------- MODULE SluIO --------------------------------
(***************************************************************************)
(* Coordinate / compressed-column file readers (C16), array-write level.   *)
(* A file is a header (order n, declared entry count, symmetric flag) and   *)
(* an entry list in any order; symmetric files store one triangle, with or  *)
(* without diagonal entries.  The reader copies the entries into arrays of  *)
(* a capacity fixed in advance and mirrors every off-diagonal entry of a    *)
(* symmetric file; every array write is an action that carries its index.   *)
(*   CapRule = "2nz-n"  the capacity formula of the code before the fix     *)
(*             "2nz"    after the fix (coordinate reader)                   *)
(*             "exact"  2nz - (diagonal entries present)  (FormFullA fixed) *)
(***************************************************************************)
EXTENDS Integers, Sequences, FiniteSets, TLC
CONSTANTS N, MaxNz, CapRule
Pos == (0..(N - 1)) \X (0..(N - 1))
Lower == {p \in Pos : p[1] >= p[2]}
VARIABLES file, sym, k, nz, written, cap
vars == <<file, sym, k, nz, written, cap>>
\* all entry lists without repeated positions (a well-formed file), any order
Files(S) == UNION {{f \in [1..len -> S] : \A a, b \in 1..len : a # b => f[a] # f[b]} : len \in 0..MaxNz}
Diag(f) == Cardinality({i \in DOMAIN f : f[i][1] = f[i][2]})
Capacity(f, s) == IF ~s THEN Len(f)
                  ELSE IF CapRule = "2nz-n" THEN 2 * Len(f) - N
                  ELSE IF CapRule = "2nz" THEN 2 * Len(f) ELSE 2 * Len(f) - Diag(f)
Init == /\ sym \in BOOLEAN
        /\ file \in (IF sym THEN Files(Lower) ELSE Files(Pos))
        /\ k = 1 /\ nz = 0 /\ written = {} /\ cap = Capacity(file, sym)
\* one iteration of the read loop: store the entry, and its mirror image for an off-diagonal entry of a symmetric file
ReadEntry ==
  /\ k <= Len(file)
  /\ LET e == file[k]  mirror == sym /\ e[1] # e[2] IN
     /\ written' = written \cup {<<nz, e>>} \cup (IF mirror THEN {<<nz + 1, <<e[2], e[1]>>>>} ELSE {})
     /\ nz' = nz + (IF mirror THEN 2 ELSE 1)
  /\ k' = k + 1 /\ UNCHANGED <<file, sym, cap>>
Next == ReadEntry
Spec == Init /\ [][Next]_vars
\* every write lands inside the arrays that were allocated
WriteInCapacity == \A w \in written : w[1] < cap
\* when the file is consumed the arrays hold exactly the full matrix
Expand(f, s) == {f[i] : i \in DOMAIN f} \cup (IF s THEN {<<f[i][2], f[i][1]>> : i \in DOMAIN f} ELSE {})
ResultIsFile == (k > Len(file)) => ({w[2] : w \in written} = Expand(file, sym) /\ nz = Cardinality(Expand(file, sym)))
=============================================================================
