SPECIFICATION Spec
CONSTANTS N = 5
LEGACY = TRUE
INVARIANT ReadsWhatWasParked
INVARIANT NoCollision
CHECK_DEADLOCK FALSE
