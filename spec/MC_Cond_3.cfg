SPECIFICATION Spec
CONSTANTS
  N = 3
  Vals <- ValsB
INVARIANT EstLeTrue
INVARIANT IterBound
INVARIANT Positive
CHECK_DEADLOCK FALSE
