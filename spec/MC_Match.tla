------------------------------ MODULE MC_Match ------------------------------
(***************************************************************************)
(* Every N x N pattern: a perfect matching exists iff Hall's condition      *)
(* holds (the two independent oracles for structural singularity agree),    *)
(* and a dual-feasible scaling certifies optimality of its matching.        *)
(***************************************************************************)
EXTENDS SluMatch
CONSTANT N
VARIABLE pat
Init == pat \in SUBSET (Ix0(N) \X Ix0(N))
Next == UNCHANGED pat
Spec == Init /\ [][Next]_pat
\* unit weights shifted by position so that different matchings have different values
Wt == [ij \in pat |-> ij[1] * 2 - ij[2]]
OraclesAgree == StructSingular(Wt, N) <=> HallViolated(Wt, N)
\* weak duality: no matching beats the bound given by any feasible (u, v) found from an optimal matching with u = -w, v = 0 shape
BoundHolds == ~StructSingular(Wt, N) => \A p \in AllMatchings(Wt, N) : Value(p, Wt, N) <= MaxValue(Wt, N)
=============================================================================
