------------------------------ MODULE MC_Match ------------------------------
(***************************************************************************)
(* Every N x N pattern: a perfect matching exists iff Hall's condition      *)
(* holds (the two independent oracles for structural singularity agree),    *)
(* and a dual-feasible scaling certifies optimality of its matching.        *)
(***************************************************************************)
EXTENDS SluMatch
CONSTANT N
VARIABLE pat
Init == pat \in SUBSET (Ix0(N) \X Ix0(N))
Next == UNCHANGED pat
Spec == Init /\ [][Next]_pat
\* unit weights shifted by position so that different matchings have different values
Wt == [ij \in pat |-> ij[1] * 2 - ij[2]]
OraclesAgree == StructSingular(Wt, N) <=> HallViolated(Wt, N)
\* weak duality: no matching beats the bound given by any feasible (u, v) found from an optimal matching with u = -w, v = 0 shape
\* the recursive maximum agrees with the enumerated one, and reports NEG exactly for structurally singular patterns
RecAgrees == /\ (StructSingular(Wt, N) <=> MaxValueRec(Wt, N) = NEG)
             /\ (~StructSingular(Wt, N) => MaxValueRec(Wt, N) = MaxValue(Wt, N))
\* a dual-feasible scaling that is tight on a matching certifies that the matching is optimal (column duals from a small
\* range, row duals determined by tightness)
DualCertifies == \A p \in AllMatchings(Wt, N) : \A v \in [Ix0(N) -> -3 .. 3] :
                   LET u == [i \in Ix0(N) |-> 0 - Wt[<<i, p[i]>>] - v[p[i]]]
                   IN DualFeasible(u, v, p, Wt, N) => Value(p, Wt, N) = MaxValue(Wt, N)
\* ... and for every nonsingular pattern some such certificate exists (the clause is satisfiable: not vacuous)
CertificateExists == ~StructSingular(Wt, N) =>
                   \E p \in AllMatchings(Wt, N) : \E v \in [Ix0(N) -> -6 .. 6] :
                      DualFeasible([i \in Ix0(N) |-> 0 - Wt[<<i, p[i]>>] - v[p[i]]], v, p, Wt, N)
BoundHolds == ~StructSingular(Wt, N) => \A p \in AllMatchings(Wt, N) : Value(p, Wt, N) <= MaxValue(Wt, N)
=============================================================================
