------------------------------- MODULE SluMem -------------------------------
(***************************************************************************)
(* The factor-storage allocator of SuperLU ([sdcz]memory.c) and its         *)
(* producers, transcribed action for action.                                *)
(*                                                                          *)
(* Two memory models:                                                       *)
(*   USER   (lwork > 0): a two-ended stack inside the caller's work[]:      *)
(*          HEAD: 5 pointer arrays | LUSUP | UCOL | LSUB | USUB | free ...  *)
(*          ... free | dwork | iwork :TAIL                                  *)
(*   SYSTEM (lwork = 0): one heap block per array, grown by copy + free.    *)
(*                                                                          *)
(* Policy layer = the actions below (growth factor 3/2, Reduce(alpha) with  *)
(* ten retries, halving of the initial estimate, alignment fix-ups, guard   *)
(* forms of the producers).  Safety layer = the invariants at the end;      *)
(* trace validation (SluTrace) uses the safety layer only (rule S0).        *)
(*                                                                          *)
(* LEGACY = TRUE reproduces the allocator before the 'fix:' commits         *)
(* (DESIGN 9.1, 9.9, 9.10): TLC then exhibits the violations that the       *)
(* conformance sweep reproduced on the real library.                        *)
(***************************************************************************)
EXTENDS Integers, Sequences, FiniteSets, TLC

CONSTANTS N, M,          \* columns, rows of the matrix
          ANNZ,          \* nnz(A)
          FILL,          \* fill estimate sp_ienv(6)
          PANEL, MAXSUPER, ROWBLK,
          DW,            \* sizeof(value): 4, 8, 8, 16 for s, d, c, z
          LIW,           \* sizeof(int_t): 4 or 8
          LWORKS,        \* set of workspace lengths in bytes (0 = SYSTEM model)
          ALIGNS,        \* set of (address of work) mod 8
          MAXL, MAXU, MAXLU,   \* bounds on what the producers may demand in total
          MAXFAIL,       \* SYSTEM model: how many allocation requests may fail
          LEGACY         \* TRUE: allocator as it was before the fixes

IW == 4                                   \* sizeof(int)
LUSUP == 0  UCOL == 1  LSUB == 2  USUB == 3
Types == {LUSUP, UCOL, LSUB, USUB}
LWord(t) == IF t \in {LSUB, USUB} THEN LIW ELSE DW
NULL == -1000000
Max(a, b) == IF a > b THEN a ELSE b

\* sizes of the tail work arrays (?LUWorkInit)
ISize == ((2 * PANEL + 2 + 3) * M) * IW
DSize == (M * PANEL + Max(M, (MAXSUPER + ROWBLK) * PANEL)) * DW
\* the five pointer arrays xsup, supno (int) and xlsub, xlusup, xusub (int_t)
PtrBytes(i) == IF LEGACY \/ i <= 2 THEN (N + 1) * IW ELSE (N + 1) * LIW

VARIABLES pc, user, lwork, align,
          size, used, top1, top2,           \* LU_stack_t
          mem, cap,                         \* expanders[t].mem (offset / heap id) and .size
          nzlu, nzu, nzl,                   \* nzlumax, nzumax, nzlmax
          ptrs, base,                       \* offsets of the pointer arrays; top1 after them
          iwork, dwork,
          numexp, k,
          nextl, nextu, nextlu,             \* producer cursors
          pend,                             \* pending demand of a producer: <<>> or <<type, need, kind>>
          fails,                            \* SYSTEM: allocation failures delivered so far
          info
vars == <<pc, user, lwork, align, size, used, top1, top2, mem, cap, nzlu, nzu, nzl, ptrs, base, iwork, dwork,
          numexp, k, nextl, nextu, nextlu, pend, fails, info>>

StackFull(x) == x + used >= size
Misaligned(off) == ((off + align) % 8) # 0
AlignUp(off) == off + ((8 - ((off + align) % 8)) % 8)
ReqLen(t) == IF t = LUSUP THEN nzlu ELSE IF t = LSUB THEN nzl ELSE nzu
Order == <<LUSUP, UCOL, LSUB, USUB>>

Init == /\ pc = "setup" /\ lwork \in LWORKS /\ align \in ALIGNS /\ user = FALSE
        /\ size = 0 /\ used = 0 /\ top1 = 0 /\ top2 = 0
        /\ mem = [t \in Types |-> NULL] /\ cap = [t \in Types |-> 0]
        /\ nzlu = FILL * ANNZ /\ nzu = FILL * ANNZ /\ nzl = FILL * ANNZ
        /\ ptrs = <<>> /\ base = 0 /\ iwork = NULL /\ dwork = NULL /\ numexp = 0 /\ k = 0
        /\ nextl = 0 /\ nextu = 0 /\ nextlu = 0 /\ pend = <<>> /\ fails = 0 /\ info = 0

\* ?SetupSpace
SetupSpace ==
  /\ pc = "setup" /\ pc' = "ptrs"
  /\ user' = (lwork > 0)
  /\ used' = 0 /\ top1' = 0 /\ top2' = (lwork \div 4) * 4 /\ size' = (lwork \div 4) * 4
  /\ UNCHANGED <<lwork, align, mem, cap, nzlu, nzu, nzl, ptrs, base, iwork, dwork, numexp, k, nextl, nextu, nextlu, pend, fails, info>>

\* one pointer array: ?user_malloc((n+1)*word, HEAD)  /  intMalloc (SYSTEM: aborts on failure, not modelled)
PtrArray ==
  /\ pc = "ptrs" /\ Len(ptrs) < 5
  /\ LET b == PtrBytes(Len(ptrs) + 1) IN
     IF ~user THEN ptrs' = Append(ptrs, 0) /\ UNCHANGED <<top1, used>>
     ELSE IF StackFull(b) THEN ptrs' = Append(ptrs, NULL) /\ UNCHANGED <<top1, used>>
     ELSE ptrs' = Append(ptrs, top1) /\ top1' = top1 + b /\ used' = used + b
  /\ pc' = IF Len(ptrs) = 4 THEN "ptrchk" ELSE "ptrs"
  /\ UNCHANGED <<user, lwork, align, size, top2, mem, cap, nzlu, nzu, nzl, base, iwork, dwork, numexp, k, nextl, nextu, nextlu, pend, fails, info>>
\* (fixed code) a workspace that cannot hold the pointer arrays is reported
PtrCheck ==
  /\ pc = "ptrchk"
  /\ IF ~LEGACY /\ \E i \in 1..5 : ptrs[i] = NULL
     THEN pc' = "failed" /\ info' = 1 /\ base' = base
     ELSE pc' = "first" /\ info' = info /\ base' = top1
  /\ UNCHANGED <<user, lwork, align, size, used, top1, top2, mem, cap, nzlu, nzu, nzl, ptrs, iwork, dwork, numexp, k, nextl, nextu, nextlu, pend, fails>>

\* ?expand with num_expansions = 0 (first-time allocation of one of the four arrays)
FirstExpand ==
  /\ pc = "first" /\ k < 4
  /\ LET t == Order[k + 1]  bytes == ReqLen(t) * LWord(t) IN
     /\ IF user THEN
           IF StackFull(bytes) THEN mem' = [mem EXCEPT ![t] = NULL] /\ UNCHANGED <<top1, used, fails>>
           ELSE LET fix == IF Misaligned(top1) /\ t \in {LUSUP, UCOL} THEN AlignUp(top1) - top1 ELSE 0 IN
                /\ mem' = [mem EXCEPT ![t] = top1 + fix]
                /\ top1' = top1 + bytes + fix /\ used' = used + bytes + fix /\ fails' = fails
        ELSE \/ /\ mem' = [mem EXCEPT ![t] = 1] /\ UNCHANGED <<top1, used, fails>>
             \/ /\ fails < MAXFAIL /\ fails' = fails + 1 /\ mem' = [mem EXCEPT ![t] = NULL] /\ UNCHANGED <<top1, used>>
     /\ cap' = [cap EXCEPT ![t] = ReqLen(t)]
  /\ k' = k + 1
  /\ pc' = IF k = 3 THEN "chk" ELSE "first"
  /\ UNCHANGED <<user, lwork, align, size, top2, nzlu, nzu, nzl, ptrs, base, iwork, dwork, numexp, nextl, nextu, nextlu, pend, info>>

AnyNull == \E t \in Types : mem[t] = NULL
\* the while loop of ?LUMemInit: release, halve, give up below nnz(A)
InitCheck ==
  /\ pc = "chk"
  /\ IF AnyNull THEN
        /\ IF user THEN
              IF LEGACY THEN  \* ?user_free of the nominal total, whatever was actually pushed
                   /\ top1' = top1 - ((nzlu + nzu) * DW + (nzl + nzu) * IW)
                   /\ used' = used - ((nzlu + nzu) * DW + (nzl + nzu) * IW)
              ELSE /\ top1' = base /\ used' = used - (top1 - base)       \* back to the state after the pointer arrays
           ELSE UNCHANGED <<top1, used>>
        /\ nzlu' = nzlu \div 2 /\ nzu' = nzu \div 2 /\ nzl' = nzl \div 2
        /\ mem' = [t \in Types |-> NULL]
        /\ IF (nzlu \div 2) < ANNZ THEN pc' = "failed" /\ info' = 2 /\ k' = k
           ELSE pc' = "first" /\ k' = 0 /\ info' = info
     ELSE /\ pc' = "work" /\ UNCHANGED <<top1, used, nzlu, nzu, nzl, k, info, mem>>
  /\ UNCHANGED <<user, lwork, align, size, top2, cap, ptrs, base, iwork, dwork, numexp, nextl, nextu, nextlu, pend, fails>>

\* ?LUWorkInit
WorkInit ==
  /\ pc = "work"
  /\ IF ~user THEN
        \/ /\ iwork' = 1 /\ dwork' = 1 /\ numexp' = 1 /\ pc' = "factor" /\ UNCHANGED <<top2, used, info, fails>>
        \/ /\ fails < MAXFAIL /\ fails' = fails + 1 /\ pc' = "failed" /\ info' = 3 /\ UNCHANGED <<top2, used, iwork, dwork, numexp>>
     ELSE IF StackFull(ISize) THEN pc' = "failed" /\ info' = 3 /\ UNCHANGED <<top2, used, iwork, dwork, numexp, fails>>
     ELSE LET iw == top2 - ISize  u1 == used + ISize IN
          IF DSize + u1 >= size
          THEN pc' = "failed" /\ info' = 3 /\ iwork' = iw /\ top2' = iw /\ used' = u1 /\ UNCHANGED <<dwork, numexp, fails>>
          ELSE LET dwp == iw - DSize
                   ext == IF Misaligned(dwp) THEN dwp - (AlignUp(dwp) - 8) ELSE 0 IN
               /\ iwork' = iw /\ dwork' = dwp - ext /\ top2' = dwp - ext /\ used' = u1 + DSize + ext
               /\ numexp' = 1 /\ pc' = "factor" /\ info' = info /\ fails' = fails
  /\ UNCHANGED <<user, lwork, align, size, top1, mem, cap, nzlu, nzu, nzl, ptrs, base, k, nextl, nextu, nextlu, pend>>

(***************************************************************************)
(* ?expand with num_expansions > 0.  Grow(prev, a) is the code's            *)
(* new_len = alpha * prev_len with alpha = 1 + 2^-(a+1) (EXPAND = 1.5,      *)
(* Reduce(alpha) = (alpha + 1) / 2).                                        *)
(***************************************************************************)
Grow(prev, a) == prev + (prev \div (2 ^ (a + 1)))
\* USER model: result <<ok, new_len, extra>>
UserTry(t, prev, keep) ==
  LET Try[a \in 0..11] ==
        LET nl == IF keep THEN prev ELSE Grow(prev, a)
            ex == (nl - prev) * LWord(t)
            need == IF LEGACY \/ t # UCOL THEN ex ELSE ex + (nl - prev) * LIW IN      \* repaired code: UCOL also reserves USUB's growth
        IF ~StackFull(need) /\ (LEGACY \/ keep \/ nl > prev) THEN <<TRUE, nl, ex>>
        ELSE IF keep \/ a >= 10 \/ (~LEGACY /\ nl <= prev) THEN <<FALSE, 0, 0>>
        ELSE Try[a + 1]
  IN Try[0]

\* one ?LUMemXpand request issued by a producer that is waiting for room (pend = <<t, need, kind>>)
XpandUser(t) ==
  LET prev == cap[t]
      keep == (t = USUB)
      r == UserTry(t, IF keep THEN nzu ELSE prev, keep)
      ex == r[3] IN
  IF ~r[1] THEN /\ pc' = "failed" /\ info' = 4 /\ UNCHANGED <<mem, cap, top1, used, numexp, nzlu, nzu, nzl>>
  ELSE /\ cap' = [cap EXCEPT ![t] = r[2]]
       /\ IF t # USUB
          THEN /\ mem' = [x \in Types |-> IF x > t THEN mem[x] + ex ELSE mem[x]]
               /\ top1' = top1 + ex + (IF t = UCOL THEN (IF LEGACY THEN ex ELSE (r[2] - prev) * LIW) ELSE 0)
               /\ used' = used + ex + (IF t = UCOL THEN (IF LEGACY THEN ex ELSE (r[2] - prev) * LIW) ELSE 0)
          ELSE UNCHANGED <<mem, top1, used>>
       /\ numexp' = numexp + 1
       /\ nzlu' = IF t = LUSUP THEN r[2] ELSE nzlu
       /\ nzu' = IF t \in {UCOL, USUB} THEN r[2] ELSE nzu
       /\ nzl' = IF t = LSUB THEN r[2] ELSE nzl
       /\ UNCHANGED <<pc, info>>
XpandSystem(t) ==
  LET prev == cap[t]
      keep == (t = USUB) IN
  \/ \* the allocation of some attempt succeeds (attempt a of the Reduce loop)
     \E a \in 0..(IF keep THEN 0 ELSE 10) :
       LET nl == IF keep THEN nzu ELSE Grow(prev, a) IN
       /\ (a > 0 => fails + a <= MAXFAIL)
       /\ (LEGACY \/ keep \/ nl > prev)
       /\ fails' = fails + a
       /\ cap' = [cap EXCEPT ![t] = nl]
       /\ numexp' = numexp + 1
       /\ nzlu' = IF t = LUSUP THEN nl ELSE nzlu
       /\ nzu' = IF t \in {UCOL, USUB} THEN nl ELSE nzu
       /\ nzl' = IF t = LSUB THEN nl ELSE nzl
       /\ UNCHANGED <<pc, info, mem, top1, used>>
  \/ \* every attempt fails
     /\ fails < MAXFAIL /\ fails' = MAXFAIL
     /\ pc' = "failed" /\ info' = 4 /\ UNCHANGED <<mem, cap, top1, used, numexp, nzlu, nzu, nzl>>

\* ---- producers (guard forms of ?snode_dfs, ?column_dfs, ?column_bmod / ?gstrf, ?copy_to_ucol) ----
\* a producer step either writes (room available) or issues one expansion request
Idle == pc = "factor" /\ pend = <<>>
\* ?column_dfs / ?snode_dfs row append: write lsub[nextl++], THEN test nextl >= nzlmax
AppendL ==
  /\ Idle /\ nextl < MAXL
  /\ nextl' = nextl + 1
  /\ pend' = IF nextl + 1 >= nzl THEN <<LSUB, 0, "once">> ELSE <<>>
  /\ UNCHANGED <<pc, user, lwork, align, size, used, top1, top2, mem, cap, nzlu, nzu, nzl, ptrs, base, iwork, dwork, numexp, k, nextu, nextlu, fails, info>>
\* ?snode_dfs copy of r subscripts for pruning: while (nextl + r > nzlmax) expand; then bulk copy
SnodeCopy(r) ==
  /\ Idle /\ nextl + r <= MAXL
  /\ pend' = <<LSUB, nextl + r, "copyL">>
  /\ UNCHANGED <<pc, user, lwork, align, size, used, top1, top2, mem, cap, nzlu, nzu, nzl, ptrs, base, iwork, dwork, numexp, k, nextl, nextu, nextlu, fails, info>>
\* ?column_bmod / ?gstrf: while (nextlu + r > nzlumax) expand LUSUP
AppendLU(r) ==
  /\ Idle /\ nextlu + r <= MAXLU
  /\ pend' = <<LUSUP, nextlu + r, "lu">>
  /\ UNCHANGED <<pc, user, lwork, align, size, used, top1, top2, mem, cap, nzlu, nzu, nzl, ptrs, base, iwork, dwork, numexp, k, nextl, nextu, nextlu, fails, info>>
\* ?copy_to_ucol: while (nextu + r > nzumax) { expand UCOL; expand USUB }
AppendU(r) ==
  /\ Idle /\ nextu + r <= MAXU
  /\ pend' = <<UCOL, nextu + r, "u">>
  /\ UNCHANGED <<pc, user, lwork, align, size, used, top1, top2, mem, cap, nzlu, nzu, nzl, ptrs, base, iwork, dwork, numexp, k, nextl, nextu, nextlu, fails, info>>

CapOf(t) == IF t = LUSUP THEN nzlu ELSE IF t = LSUB THEN nzl ELSE nzu
\* the guard of the copy loop: the code tests '>' ; the fixed ?snode_dfs tests '>=' so that a later
\* write-then-test append still finds room
NeedsRoom == IF pend[3] \in {"once", "u2"} THEN TRUE
             ELSE IF pend[3] = "copyL" /\ ~LEGACY THEN pend[2] >= CapOf(pend[1])
             ELSE pend[2] > CapOf(pend[1])
Serve ==
  /\ pc = "factor" /\ pend # <<>>
  /\ IF NeedsRoom THEN
        /\ (IF user THEN XpandUser(pend[1]) /\ fails' = fails ELSE XpandSystem(pend[1]))
        /\ pend' = IF pend[3] = "once" THEN <<>>
                   ELSE IF pend[3] = "u" /\ pend[1] = UCOL THEN <<USUB, pend[2], "u2">>
                   ELSE IF pend[3] = "u2" THEN <<UCOL, pend[2], "u">>
                   ELSE pend
        /\ UNCHANGED <<nextl, nextu, nextlu>>
     ELSE \* room: the producer writes
        /\ nextl' = IF pend[3] = "copyL" THEN pend[2] ELSE nextl
        /\ nextlu' = IF pend[3] = "lu" THEN pend[2] ELSE nextlu
        /\ nextu' = IF pend[3] \in {"u", "u2"} THEN pend[2] ELSE nextu
        /\ pend' = <<>>
        /\ UNCHANGED <<pc, mem, cap, top1, used, numexp, nzlu, nzu, nzl, fails, info>>
  /\ UNCHANGED <<user, lwork, align, size, top2, ptrs, base, iwork, dwork, k>>

\* ?LUWorkFree at the end of the factorization
Finish ==
  /\ Idle /\ pc' = "done"
  /\ IF user THEN used' = used - (size - top2) /\ top2' = size ELSE UNCHANGED <<used, top2>>
  /\ UNCHANGED <<user, lwork, align, size, top1, mem, cap, nzlu, nzu, nzl, ptrs, base, iwork, dwork, numexp, k, nextl, nextu, nextlu, pend, fails, info>>

Next == SetupSpace \/ PtrArray \/ PtrCheck \/ FirstExpand \/ InitCheck \/ WorkInit
        \/ AppendL \/ (\E r \in 1..2 : SnodeCopy(r) \/ AppendLU(r) \/ AppendU(r)) \/ Serve \/ Finish
Spec == Init /\ [][Next]_vars
FairSpec == Spec /\ WF_vars(Next)

(***************************************************************************)
(* Safety layer                                                             *)
(***************************************************************************)
\* quiescent points: between two producer steps (a UCOL request that over-commits the stack is always
\* followed by the refusal of its companion USUB request, see Serve)
Running == pc \in {"factor", "done"} /\ pend = <<>>
StackSane == (Running /\ user) => /\ 0 <= top1 /\ top1 <= top2 /\ top2 <= size
                                  /\ used = top1 + (size - top2)
PtrsOK == Running => /\ \A i \in 1..5 : ptrs[i] # NULL /\ ptrs[i] >= 0
                     /\ (user => \A i \in 1..4 : ptrs[i] + PtrBytes(i) <= ptrs[i + 1])
                     /\ (user => ptrs[5] + (N + 1) * LIW <= mem[LUSUP])
\* the four arrays exist, are ordered, disjoint, inside [0, top1) and hold their capacity
RegionsOK == Running =>
  /\ \A t \in Types : mem[t] # NULL
  /\ user => /\ mem[LUSUP] >= 0
             /\ \A t \in {LUSUP, UCOL, LSUB} : mem[t] + cap[t] * LWord(t) <= mem[t + 1]
             /\ mem[USUB] + cap[USUB] * LWord(USUB) <= top1
             /\ \A t \in {LUSUP, UCOL} : ((mem[t] + align) % (IF DW >= 8 THEN 8 ELSE 4)) = 0      \* values aligned to their own size
  /\ cap[LUSUP] = nzlu /\ cap[LSUB] = nzl /\ cap[UCOL] = nzu /\ cap[USUB] = nzu
WorkOK == (pc = "factor" /\ pend = <<>> /\ user) => /\ iwork # NULL /\ dwork # NULL
                                     /\ top2 <= dwork /\ dwork + DSize <= iwork /\ iwork + ISize <= size
                                     /\ ~Misaligned(dwork)
\* every write of a producer falls inside the capacity of its array
WritesInside == Running => /\ nextl <= nzl /\ nextlu <= nzlu /\ nextu <= nzu
                           /\ (pc = "factor" => nextl < nzl)      \* next write-then-test append has room
\* a shortage is reported, never survived
ShortageReported == (pc = "failed") => info > 0
\* a granted expansion enlarges the array (otherwise the while-loops of the producers never end)
ExpandGrows == [][(pc = "factor" /\ pend # <<>> /\ pc' = "factor" /\ numexp' > numexp /\ pend[1] # USUB) => cap'[pend[1]] > cap[pend[1]]]_vars
Terminates == <>(pc \in {"done", "failed"})
TypeOK == pc \in {"setup", "ptrs", "ptrchk", "first", "chk", "work", "factor", "done", "failed"}
=============================================================================
