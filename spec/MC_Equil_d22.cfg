SPECIFICATION Spec
CONSTANTS
  M = 2
  N = 2
  WIDE = TRUE
  TY = "d"
INVARIANT InvRange
INVARIANT InvRows
INVARIANT InvCols
INVARIANT InvZero
INVARIANT InvEqued
CHECK_DEADLOCK FALSE
