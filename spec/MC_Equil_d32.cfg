SPECIFICATION Spec
CONSTANTS
  M = 3
  N = 2
  WIDE = FALSE
  TY = "d"
INVARIANT InvRange
INVARIANT InvRows
INVARIANT InvCols
INVARIANT InvZero
INVARIANT InvEqued
CHECK_DEADLOCK FALSE
