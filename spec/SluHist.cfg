SPECIFICATION Spec
CONSTANT MaxLen = 4
INVARIANT Emit
INVARIANT Pre
CHECK_DEADLOCK FALSE
