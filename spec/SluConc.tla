------------------------------ MODULE SluConc ------------------------------
(***************************************************************************)
(* Independent calls on different threads (C09).  Each call is a process    *)
(* with its own private state and a list of atomic steps (the yield points  *)
(* of the allocation seam and the event hooks); there is NO shared variable *)
(* -- that is the claim.  In the model "every call's result is a function   *)
(* of its own arguments" holds trivially; what carries the weight is the    *)
(* conformance run that replays each schedule TLC enumerates here against   *)
(* the real library with a hand-off scheduler and compares every output     *)
(* with the same call executed alone.                                       *)
(***************************************************************************)
EXTENDS Integers, Sequences, FiniteSets, TLC, Json
CONSTANTS Procs, Steps        \* process ids 0..K-1, number of scheduler grants per process
VARIABLES pc, sched, result
vars == <<pc, sched, result>>
Init == pc = [p \in Procs |-> 0] /\ sched = <<>> /\ result = [p \in Procs |-> 0]
\* one grant: process p runs from one yield point to the next; it reads and writes its own state only
Step(p) == /\ pc[p] < Steps
           /\ pc' = [pc EXCEPT ![p] = pc[p] + 1]
           /\ result' = [result EXCEPT ![p] = result[p] + (p + 1)]        \* private accumulation
           /\ sched' = Append(sched, p)
Next == \E p \in Procs : Step(p)
Spec == Init /\ [][Next]_vars
Done == \A p \in Procs : pc[p] = Steps
\* whatever the interleaving, a call's result depends on its own steps only
Independent == \A p \in Procs : result[p] = pc[p] * (p + 1)
Emit == ~Done \/ PrintT(ToJson([sched |-> sched]))
=============================================================================
