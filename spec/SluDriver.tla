----------------------------- MODULE SluDriver -----------------------------
(***************************************************************************)
(* The expert drivers ?gssvx / ?gsisx as a phase machine (DESIGN 2.1).      *)
(*                                                                         *)
(* Policy layer: the phases in the order the code performs them, one       *)
(* action per block of [sdcz]gssvx.c between two hook points, guarded by    *)
(* the option values and by the outcomes of the routines called            *)
(* (screening, equilibration decision, factorization result, condition     *)
(* estimate).  Each action records which caller-visible objects it writes. *)
(*                                                                         *)
(* Safety layer: SafeRun(o, info, phases) -- what the properties demand of  *)
(* ANY sequence of phases, whatever order a maintainer chooses:            *)
(*   C18  a rejected call performs no phase that writes                     *)
(*   C08  a size query performs no phase that writes                        *)
(*   C04  a singular return (0 < info <= n) scales no B, writes no X        *)
(*   C05  B is scaled only when the equilibration in effect calls for it,   *)
(*        A is scaled only in the Equil phase of a factoring call           *)
(*   C06  Fact = FACTORED factors nothing, orders nothing, scales no A;     *)
(*        SamePattern / SameRowPerm compute no new column order             *)
(*   C01/C05 a successful call with right-hand sides solves exactly once,   *)
(*        after the factorization, the copy of B and its scaling; it        *)
(*        refines after the solve iff refinement was requested and          *)
(*        unscales X last                                                   *)
(* MC: the policy machine satisfies SafeRun in every terminal state, for    *)
(* every option combination and outcome (SluDriver.cfg).  Conformance:      *)
(* the Phase events of the hooked drivers are collected per call and        *)
(* SluTrace evaluates the same SafeRun on them.                             *)
(***************************************************************************)
EXTENDS Integers, Sequences, FiniteSets, TLC

Phases == {"Rejected", "Query", "Convert", "Equil", "RowPerm", "RestoreRows", "Order", "Preorder", "Factor", "Singular", "NoMem", "Growth", "Cond",
           "ScaleB", "CopyBX", "Solve", "Refine", "NoRefine", "UnscaleX", "Warn", "Cleanup"}
\* phases that write caller-visible data (everything but the bookkeeping ones)
Writes(p) == CASE p = "Equil" -> {"A", "R", "C", "equed"}
               [] p = "RowPerm" -> {"A"}                                \* (?gsisx: row indices permuted by MC64 ...)
               [] p = "RestoreRows" -> {"A"}                            \* (... and restored before any return)
               [] p = "Order" -> {"perm_c"}
               [] p = "Preorder" -> {"perm_c", "etree"}
               [] p = "Factor" -> {"L", "U", "perm_r"}
               [] p = "Growth" -> {"rpg"}
               [] p = "Cond" -> {"rcond"}
               [] p = "ScaleB" -> {"B"}
               [] p = "CopyBX" -> {"X"}
               [] p = "Solve" -> {"X"}
               [] p = "Refine" -> {"X", "ferr", "berr"}
               [] p = "NoRefine" -> {"ferr", "berr"}
               [] p = "UnscaleX" -> {"X"}
               [] OTHER -> {}
\* options of one call: Fact 0..3, Equil, Trans 0..2, nr (row storage), nrhs, Cond, Growth, Refine, lw in {"sys", "user", "query"}, ilu
Opt == [Fact : 0..3, Equil : BOOLEAN, Trans : 0..2, nr : BOOLEAN, nrhs : 0..1, Cond : BOOLEAN, Growth : BOOLEAN, Refine : BOOLEAN,
        lw : {"sys", "user", "query"}, ilu : BOOLEAN, mc64 : BOOLEAN]
NoFact(o) == o.Fact # 3
IsQuery(o) == NoFact(o) /\ o.lw = "query"
\* the transpose the solve phases see (row storage is handled as the transposed column matrix)
NotranEff(o) == IF o.nr THEN o.Trans # 0 ELSE o.Trans = 0

Pos(ph, p) == {i \in 1..Len(ph) : ph[i] = p}
Count(ph, p) == Cardinality(Pos(ph, p))
Before(ph, p, q) == \A i \in Pos(ph, p) : \A k \in Pos(ph, q) : i < k
Written(ph) == UNION {Writes(ph[i]) : i \in 1..Len(ph)}

(***************************************************************************)
(* Safety layer.  eq = equed letter in effect after the call ("N","R","C", *)
(* "B"); info as returned; n = order.                                       *)
(***************************************************************************)
SafeClauses(o, info, n, eq, ph) ==
  LET rowequ == eq \in {"R", "B"}  colequ == eq \in {"C", "B"}
      bscale == (NotranEff(o) /\ rowequ) \/ (~NotranEff(o) /\ colequ)
      xscale == (NotranEff(o) /\ colequ) \/ (~NotranEff(o) /\ rowequ)
      solved == info = 0 \/ info = n + 1 \/ (o.ilu /\ info > 0 /\ info <= n)
  IN (IF info < 0 /\ Written(ph) # {} THEN {"C18.rejected_call_performed_" \o ph[CHOOSE i \in 1..Len(ph) : Writes(ph[i]) # {}]} ELSE {})
     \cup (IF info >= 0 /\ IsQuery(o) /\ Written(ph) # {} THEN {"C08.query_performed_" \o ph[CHOOSE i \in 1..Len(ph) : Writes(ph[i]) # {}]} ELSE {})
     \cup (IF ~o.ilu /\ info > 0 /\ info <= n /\ {"B", "X"} \cap Written(ph) # {} THEN {"C04.singular_return_after_solve_phases"} ELSE {})
     \cup (IF info > n + 1 /\ {"B", "X"} \cap Written(ph) # {} THEN {"C08.out_of_memory_return_after_solve_phases"} ELSE {})
     \cup (IF o.Fact = 3 /\ {"L", "U", "perm_r", "perm_c", "etree", "A", "R", "C", "equed"} \cap Written(ph) # {} THEN {"C06.resolve_performed_factor_phases"} ELSE {})
     \cup (IF o.Fact \in {1, 2} /\ Count(ph, "Order") > 0 THEN {"C06.column_order_recomputed"} ELSE {})
     \cup (IF ~(NoFact(o) /\ o.Equil) /\ Count(ph, "Equil") > 0 THEN {"C05.equilibrated_without_request"} ELSE {})
     \cup (IF Count(ph, "ScaleB") > 0 /\ ~bscale THEN {"C05.B_scaled_without_equilibration"} ELSE {})
     \cup (IF Count(ph, "UnscaleX") > 0 /\ ~xscale THEN {"C05.X_unscaled_without_equilibration"} ELSE {})
     \cup (IF info >= 0 /\ ~IsQuery(o) /\ solved /\ o.nrhs > 0 /\ Count(ph, "Solve") # 1 THEN {"C05.not_solved_exactly_once"} ELSE {})
     \cup (IF info >= 0 /\ ~IsQuery(o) /\ solved /\ o.nrhs > 0 /\ bscale /\ Count(ph, "ScaleB") # 1 THEN {"C05.B_not_scaled_exactly_once"} ELSE {})
     \cup (IF info >= 0 /\ ~IsQuery(o) /\ solved /\ o.nrhs > 0 /\ xscale /\ Count(ph, "UnscaleX") # 1 THEN {"C05.X_not_unscaled_exactly_once"} ELSE {})
     \cup (IF o.nrhs = 0 /\ {"B", "X"} \cap Written(ph) # {} THEN {"C05.solve_phases_without_right_hand_sides"} ELSE {})
     \cup (IF ~(Before(ph, "Factor", "Solve") /\ Before(ph, "ScaleB", "Solve") /\ Before(ph, "CopyBX", "Solve") /\ Before(ph, "Solve", "Refine")
               /\ Before(ph, "Solve", "UnscaleX") /\ Before(ph, "Refine", "UnscaleX") /\ Before(ph, "Equil", "Factor") /\ Before(ph, "Preorder", "Factor")
               /\ Before(ph, "Order", "Preorder") /\ Before(ph, "ScaleB", "CopyBX") /\ Before(ph, "Factor", "Cond") /\ Before(ph, "Factor", "Growth"))
           THEN {"C05.phase_order"} ELSE {})
     \cup (IF ~o.ilu /\ info >= 0 /\ ~IsQuery(o) /\ solved /\ o.nrhs > 0 /\ o.Refine /\ Count(ph, "Refine") # 1 THEN {"C13.refinement_requested_but_not_performed"} ELSE {})
     \cup (IF ~o.Refine /\ Count(ph, "Refine") > 0 THEN {"C13.refinement_performed_without_request"} ELSE {})
     \cup (IF info >= 0 /\ ~IsQuery(o) /\ NoFact(o) /\ Count(ph, "Factor") # 1 THEN {"C06.not_factored_exactly_once"} ELSE {})
     \cup (IF o.Cond /\ (info = 0 \/ info = n + 1) /\ ~IsQuery(o) /\ Count(ph, "Cond") # 1 THEN {"C12.estimate_requested_but_not_computed"} ELSE {})
     \cup (IF ~o.Cond /\ info = n + 1 THEN {"C12.warning_without_estimate"} ELSE {})
     \* incomplete factorization driver: the caller's matrix comes back with its original row indices on every return path
     \cup (IF Count(ph, "RowPerm") # Count(ph, "RestoreRows") THEN {"C15.row_indices_not_restored"} ELSE {})
     \cup (IF Count(ph, "RowPerm") > 0 /\ ~(o.ilu /\ o.mc64 /\ NoFact(o)) THEN {"C15.row_permutation_without_request"} ELSE {})
     \cup (IF ~Before(ph, "RowPerm", "Factor") \/ ~Before(ph, "Factor", "RestoreRows") THEN {"C15.phase_order"} ELSE {})
SafeRun(o, info, n, eq, ph) == SafeClauses(o, info, n, eq, ph) = {}

(***************************************************************************)
(* Policy layer: ?gssvx as coded.  Outcomes of the callees are chosen      *)
(* nondeterministically: bad (argument screening fails), eqd (decision of   *)
(* ?laqgs), fres in {"ok", "sing", "nomem"}, tiny (rcond < eps).            *)
(***************************************************************************)
CONSTANT N
VARIABLES pc, o, hist, info, eq
vars == <<pc, o, hist, info, eq>>

Init == /\ pc = "Screen" /\ hist = <<>> /\ info = 0
        /\ o \in {x \in Opt : (x.mc64 => x.ilu) /\ (x.ilu => ~x.Refine)}       \* (?gsisx has no refinement; MC64 only there)
        /\ eq \in (IF o.Fact = 3 THEN {"N", "R", "C", "B"} ELSE {"N"})         \* equed is an input with supplied factors
Do(p, next) == /\ hist' = Append(hist, p) /\ pc' = next
Skip(next) == /\ hist' = hist /\ pc' = next

Screen == /\ pc = "Screen"
          /\ \/ /\ info' = -1 /\ Do("Rejected", "Done") /\ UNCHANGED <<o, eq>>
             \/ /\ IsQuery(o) /\ info' = N + 1 + 100 /\ Do("Query", "Done") /\ UNCHANGED <<o, eq>>
             \/ /\ ~IsQuery(o) /\ Skip("Convert") /\ UNCHANGED <<o, info, eq>>
Convert == /\ pc = "Convert" /\ (IF o.nr THEN Do("Convert", "Equil") ELSE Skip("Equil")) /\ UNCHANGED <<o, info, eq>>
Equil == /\ pc = "Equil"
         /\ \/ \* ?gsisx with LargeDiag_MC64: the matching succeeds -> rows permuted (and A scaled by exp(u), exp(v) if Equil) ...
               /\ o.ilu /\ o.mc64 /\ NoFact(o)
               /\ hist' = hist \o <<"RowPerm">> \o (IF o.Equil THEN <<"Equil">> ELSE <<>>)
               /\ eq' = (IF o.Equil THEN "B" ELSE eq) /\ pc' = "Order"
            \/ \* ... or fails (or was not requested): ordinary equilibration
               /\ IF NoFact(o) /\ o.Equil
                  THEN \E e \in {"N", "R", "C", "B"} : eq' = e /\ Do("Equil", "Order")
                  ELSE Skip("Order") /\ eq' = eq
         /\ UNCHANGED <<o, info>>
Order == /\ pc = "Order"
         /\ (IF NoFact(o) /\ o.Fact = 0 THEN Do("Order", "Preorder") ELSE Skip("Preorder"))      \* (MY_PERMC: no Order event either)
         /\ UNCHANGED <<o, info, eq>>
Preorder == /\ pc = "Preorder" /\ (IF NoFact(o) THEN Do("Preorder", "Factor") ELSE Skip("Factor")) /\ UNCHANGED <<o, info, eq>>
Factor == /\ pc = "Factor"
          /\ IF NoFact(o)
             THEN \E r \in {"ok", "sing", "nomem"} :
                    /\ info' = (IF r = "ok" THEN 0 ELSE IF r = "sing" THEN 1 ELSE N + 50)
                    /\ hist' = Append(hist, "Factor") /\ pc' = "AfterFactor"
             ELSE Skip("AfterFactor") /\ info' = info
          /\ UNCHANGED <<o, eq>>
AfterFactor == /\ pc = "AfterFactor"
               /\ LET rr == IF Count(hist, "RowPerm") > Count(hist, "RestoreRows") THEN <<"RestoreRows">> ELSE <<>> IN   \* (?gsisx: before any return)
                  IF info > N THEN hist' = hist \o rr \o <<"NoMem">> /\ pc' = "Done"
                  ELSE IF info > 0 /\ ~o.ilu THEN hist' = hist \o <<"Growth", "Singular">> /\ pc' = "Done"
                  ELSE hist' = hist \o rr /\ pc' = "Growth"         \* (?gsisx goes on with replaced pivots, 0 < info <= n)
               /\ UNCHANGED <<o, info, eq>>
Growth == /\ pc = "Growth" /\ (IF o.Growth THEN Do("Growth", "Cond") ELSE Skip("Cond")) /\ UNCHANGED <<o, info, eq>>
Cond == /\ pc = "Cond" /\ (IF o.Cond THEN Do("Cond", "ScaleB") ELSE Skip("ScaleB")) /\ UNCHANGED <<o, info, eq>>
ScaleB == /\ pc = "ScaleB"
          /\ IF o.nrhs = 0 THEN Skip("Warn")
             ELSE LET sb == (NotranEff(o) /\ eq \in {"R", "B"}) \/ (~NotranEff(o) /\ eq \in {"C", "B"})
                      ux == (NotranEff(o) /\ eq \in {"C", "B"}) \/ (~NotranEff(o) /\ eq \in {"R", "B"})
                  IN /\ hist' = hist \o (IF sb THEN <<"ScaleB">> ELSE <<>>) \o <<"CopyBX", "Solve">> \o (IF o.Refine THEN <<"Refine">> ELSE IF o.ilu THEN <<>> ELSE <<"NoRefine">>)
                                  \o (IF ux THEN <<"UnscaleX">> ELSE <<>>)
                     /\ pc' = "Warn"
          /\ UNCHANGED <<o, info, eq>>
Warn == /\ pc = "Warn"
        /\ \/ o.Cond /\ info = 0 /\ info' = N + 1 /\ Do("Warn", "Cleanup")
           \/ info' = info /\ Skip("Cleanup")
        /\ UNCHANGED <<o, eq>>
Cleanup == /\ pc = "Cleanup" /\ Do("Cleanup", "Done") /\ UNCHANGED <<o, info, eq>>
Next == Screen \/ Convert \/ Equil \/ Order \/ Preorder \/ Factor \/ AfterFactor \/ Growth \/ Cond \/ ScaleB \/ Warn \/ Cleanup
Spec == Init /\ [][Next]_vars

TypeOK == pc \in {"Screen", "Convert", "Equil", "Order", "Preorder", "Factor", "AfterFactor", "Growth", "Cond", "ScaleB", "Warn", "Cleanup", "Done"}
          /\ \A i \in 1..Len(hist) : hist[i] \in Phases
PolicyIsSafe == pc = "Done" => SafeRun(o, info, N, eq, hist)
\* negative controls (MC_Driver_neg.cfg): a driver that scales B before it knows the factorization succeeded is reported
ScaleBEarly == /\ pc = "Factor" /\ NoFact(o) /\ o.nrhs > 0 /\ hist' = hist \o <<"ScaleB", "Factor">> /\ info' = 1 /\ pc' = "AfterFactor" /\ UNCHANGED <<o, eq>>
SpecNeg == Init /\ [][Next \/ ScaleBEarly]_vars
NoMemForgetsRows == /\ pc = "AfterFactor" /\ info > N /\ Count(hist, "RowPerm") > 0 /\ hist' = Append(hist, "NoMem") /\ pc' = "Done" /\ UNCHANGED <<o, info, eq>>
SpecNeg2 == Init /\ [][Next \/ NoMemForgetsRows]_vars
=============================================================================
