------------------------------ MODULE MC_Factor ------------------------------
(***************************************************************************)
(* Design-level model checking of the factor / solve specification:        *)
(* every M x N matrix over a small value set, every column permutation,     *)
(* every threshold, every pivot the safety layer allows (all tie branches). *)
(* Shows that the *specified* algorithm -- threshold pivoting with          *)
(* diagonal preference, permuted solves in the order ?gstrs performs them,  *)
(* the transposed solve used for row storage -- has the properties C01,     *)
(* C02, C04 demand, i.e. that the oracle used in trace validation is right. *)
(***************************************************************************)
EXTENDS Integers, Sequences, FiniteSets, TLC, Rat, SluFactor, SluSolve

CONSTANTS M, N,          \* rows, columns (M >= N)
          RealVals,      \* set of integers
          ImagVals,      \* set of integers ({0} for real arithmetic)
          UDens,         \* thresholds u = 1/d, d \in UDens
          Perms          \* "all" or "id"

Cols == 0 .. (N - 1)
ValSet == {<<<<a, 1>>, <<b, 1>>>> : a \in RealVals, b \in ImagVals}
AllPerms(n) == {p \in [1..n -> 0..(n - 1)] : {p[i] : i \in 1..n} = 0..(n - 1)}

VARIABLES A, pc, u, st, j
vars == <<A, pc, u, st, j>>

ipcOf(p) == InvPerm(p, N)
Pmat(a, p) == [ij \in Rows(M) \X Cols |-> a[<<ij[1], ipcOf(p)[ij[2]]>>]]

Init == /\ A \in [Rows(M) \X Cols -> ValSet]
        /\ pc \in (IF Perms = "all" THEN {[i \in 1..N |-> q[i]] : q \in AllPerms(N)} ELSE {[i \in 1..N |-> i - 1]})
        /\ u \in {<<1, d>> : d \in UDens}
        /\ st = InitState(Pmat(A, pc), M, N)
        /\ j = 0

\* one iteration of the jcol loop of ?gstrf with a pivot the property allows
ColumnStep == /\ j < N /\ st.sing = 0 /\ ~NoCandidate(st, j, M)
              /\ \E p \in Cand(st, M) :
                    /\ PivotAllowed(st, j, M, p, u, ipcOf(pc)[j], FALSE)
                    /\ st' = EliminateX(st, j, M, N, p)
              /\ j' = j + 1 /\ UNCHANGED <<A, pc, u>>
\* ?pivotL found no nonzero candidate: the first failing column is remembered
ZeroPivot == /\ j < N /\ st.sing = 0 /\ NoCandidate(st, j, M)
             /\ st' = [st EXCEPT !.sing = j + 1]
             /\ UNCHANGED <<A, pc, u, j>>
Next == ColumnStep \/ ZeroPivot
Spec == Init /\ [][Next]_vars

\* ------------------------------------------------------------------ invariants
P == Pmat(A, pc)
PivSet == SeqToSet(st.piv)
PosOf(i) == CHOOSE k \in 1..Len(st.piv) : st.piv[k] = i          \* 1-based position of a pivoted row
\* L(i,k) for original row i, k < j
Lval(i, k) == IF i \in PivSet /\ PosOf(i) - 1 < k THEN CZero
              ELSE IF i \in PivSet /\ PosOf(i) - 1 = k THEN COne
              ELSE st.W[<<i, k>>]
Uval(k, c) == st.W[<<st.piv[k + 1], c>>]
\* C02: (Pr A Pc)(:, 0..j-1) = L(:, 0..j-1) U(0..j-1, 0..j-1), entrywise exact
LeadingIdentity ==
  \A i \in Rows(M) : \A c \in 0..(j - 1) :
     SumTo(LAMBDA k : CMul(Lval(i, k), Uval(k, c)), 0, c) = P[<<i, c>>]
\* C02: multipliers bounded by 1/u (real data; complex data is checked in the pre-division form by the pivot rule)
MultiplierBound ==
  (ImagVals = {0}) => \A i \in Rows(M) : \A k \in 0..(j - 1) :
     (~(i \in PivSet /\ PosOf(i) - 1 <= k)) => RLe(RMul(u, CAbs1(st.W[<<i, k>>])), ROne)
UpperNonzeroDiag == \A k \in 0..(j - 1) : ~CIsZero(Uval(k, k))
\* C04: info = i exactly when column i-1 has no nonzero candidate; structural singularity is always reported
Pattern == {ij \in DOMAIN A : ~CIsZero(A[ij])}
SingularReported ==
  /\ (st.sing # 0 => NoCandidate(st, st.sing - 1, M) /\ Len(st.piv) = st.sing - 1)
  /\ ((j = N /\ st.sing = 0 /\ M = N) => ~StructurallySingular(Pattern, M, N))
\* C01 / C05: the solves of ?gstrs solve the caller's system for op = N, T, C
prF == [i \in Rows(N) |-> PosOf(i) - 1]
pcF == [k \in Cols |-> pc[k + 1]]
DLf == [ik \in Rows(N) \X Cols |-> IF ik[1] = ik[2] THEN COne ELSE IF ik[1] < ik[2] THEN CZero
                                   ELSE st.W[<<st.piv[ik[1] + 1], ik[2]>>]]
DUf == [ik \in Rows(N) \X Cols |-> IF ik[1] > ik[2] THEN CZero ELSE st.W[<<st.piv[ik[1] + 1], ik[2]>>]]
Bvec == [i \in Rows(N) |-> <<<<i + 1, 1>>, <<(IF ImagVals = {0} THEN 0 ELSE 1), 1>>>>]
SolveCorrect ==
  (j = N /\ st.sing = 0 /\ M = N) =>
     \A tr \in {"N", "T", "C"} : Solves(A, N, tr, Gstrs(tr, DLf, DUf, prF, pcF, Bvec, N), Bvec)
=============================================================================
