SPECIFICATION Spec
CONSTANTS
  N = 2
  Vals <- ValsA
INVARIANT EstLeTrue
INVARIANT IterBound
INVARIANT Positive
CHECK_DEADLOCK FALSE
