------------------------------ MODULE SluStore ------------------------------
(***************************************************************************)
(* The factor storage of SuperLU as abstract data:                          *)
(*   SC = supernodal column format of L (struct SCformat),                  *)
(*   NC = compressed column format of U (struct NCformat).                  *)
(* Records are exactly what the harness logs (0-based contents in 1-based   *)
(* TLA+ sequences).  This module holds the C03 predicate, clause by clause, *)
(* and the abstraction functions DenseL / DenseU used by every numeric      *)
(* check.  Nothing here depends on how the code built the structure.        *)
(***************************************************************************)
EXTENDS Integers, Sequences, FiniteSets, Rat

At(s, i) == s[i + 1]                       \* 0-based access
Range0(k) == 0 .. (k - 1)
IsNatSeq(s, len) == Len(s) = len /\ \A i \in 1..len : s[i] \in Nat
Monotone(s) == \A i \in 1..(Len(s) - 1) : s[i] <= s[i + 1]
SumOver(S, F(_)) == LET RECURSIVE Go(_)
                        Go(T) == IF T = {} THEN 0 ELSE LET x == CHOOSE y \in T : TRUE IN F(x) + Go(T \ {x})
                    IN Go(S)

(***************************************************************************)
(* C03, clause by clause.  Each stage presupposes the previous ones (it    *)
(* indexes arrays whose shape the earlier stage established), so the       *)
(* result is the name of the first violated clause, or "ok".               *)
(***************************************************************************)
\* supernodes partition 0..ncol-1 into consecutive non-empty ranges
SnodePartition(L, n) ==
  /\ L.nsuper \in 0..(n - 1)
  /\ IsNatSeq(L.sup_to_col, L.nsuper + 2)
  /\ At(L.sup_to_col, 0) = 0
  /\ At(L.sup_to_col, L.nsuper + 1) = n
  /\ \A s \in 0..L.nsuper : At(L.sup_to_col, s) < At(L.sup_to_col, s + 1)
ColToSup(L, n) ==
  /\ IsNatSeq(L.col_to_sup, n)
  /\ \A s \in 0..L.nsuper : \A j \in At(L.sup_to_col, s)..(At(L.sup_to_col, s + 1) - 1) : At(L.col_to_sup, j) = s
First(L, s) == At(L.sup_to_col, s)
Last1(L, s) == At(L.sup_to_col, s + 1)           \* one past the last column
NSupC(L, s) == Last1(L, s) - First(L, s)
P0(L, s) == At(L.rowind_colptr, First(L, s))
NSupR(L, s) == At(L.rowind_colptr, First(L, s) + 1) - P0(L, s)

PointerShapes(L, n) ==
  /\ IsNatSeq(L.rowind_colptr, n + 1) /\ IsNatSeq(L.nzval_colptr, n + 1)
  /\ Monotone(L.rowind_colptr) /\ Monotone(L.nzval_colptr)
  /\ At(L.rowind_colptr, 0) = 0 /\ At(L.nzval_colptr, 0) = 0
  /\ Len(L.rowind) = At(L.rowind_colptr, n)
  /\ Len(L.nzval) = At(L.nzval_colptr, n)
\* one row list per supernode, shared by its columns
SharedRowList(L, n) ==
  \A s \in 0..L.nsuper :
    /\ NSupR(L, s) >= NSupC(L, s)
    /\ \A j \in (First(L, s) + 1)..Last1(L, s) : At(L.rowind_colptr, j) = P0(L, s) + NSupR(L, s)
    /\ \A j \in First(L, s)..(Last1(L, s) - 1) : At(L.nzval_colptr, j + 1) - At(L.nzval_colptr, j) = NSupR(L, s)
\* leading entries are the supernode's own columns in order
LeadingRows(L) ==
  \A s \in 0..L.nsuper : \A k \in 0..(NSupC(L, s) - 1) : At(L.rowind, P0(L, s) + k) = First(L, s) + k
\* remaining entries are distinct rows below the supernode
BelowRows(L, m) ==
  \A s \in 0..L.nsuper :
    LET lo == P0(L, s) + NSupC(L, s)  hi == P0(L, s) + NSupR(L, s) - 1 IN
    /\ \A k \in lo..hi : At(L.rowind, k) >= Last1(L, s) /\ At(L.rowind, k) < m
    /\ \A k1, k2 \in lo..hi : k1 # k2 => At(L.rowind, k1) # At(L.rowind, k2)
ActualNnzL(L) == SumOver(0..L.nsuper, LAMBDA s : SumOver(0..(NSupC(L, s) - 1), LAMBDA k : NSupR(L, s) - k))
NnzL(L) == L.nnz = ActualNnzL(L)

UShapes(U, n) ==
  /\ IsNatSeq(U.colptr, n + 1) /\ Monotone(U.colptr) /\ At(U.colptr, 0) = 0
  /\ Len(U.rowind) = At(U.colptr, n) /\ Len(U.nzval) = At(U.colptr, n)
\* U holds only rows strictly above each column's supernode
UAbove(L, U, n) ==
  \A j \in 0..(n - 1) : \A q \in At(U.colptr, j)..(At(U.colptr, j + 1) - 1) :
      At(U.rowind, q) >= 0 /\ At(U.rowind, q) < First(L, At(L.col_to_sup, j))
\* ... without repeats (incomplete LU: a repeat is allowed only with an explicit zero)
UNoRepeats(U, n, ilu, IsZeroVal(_)) ==
  \A j \in 0..(n - 1) : \A q1, q2 \in At(U.colptr, j)..(At(U.colptr, j + 1) - 1) :
      (q1 < q2 /\ At(U.rowind, q1) = At(U.rowind, q2)) => (ilu /\ (IsZeroVal(At(U.nzval, q1)) \/ IsZeroVal(At(U.nzval, q2))))
ActualNnzU(L, U, n) == At(U.colptr, n) + SumOver(0..L.nsuper, LAMBDA s : (NSupC(L, s) * (NSupC(L, s) + 1)) \div 2)
NnzU(L, U, n) == U.nnz = ActualNnzU(L, U, n)
\* allocated lengths cover the implied lengths (library-allocated storage only; 0 = not a ledger block)
AllocCovers(L, U) ==
  /\ (L.alloc.rowind > 0 => L.alloc.rowind >= Len(L.rowind))
  /\ (L.alloc.nzval > 0 => L.alloc.nzval >= Len(L.nzval))
  /\ (U.alloc.rowind > 0 => U.alloc.rowind >= Len(U.rowind))
  /\ (U.alloc.nzval > 0 => U.alloc.nzval >= Len(U.nzval))

WellFormed(L, U, m, n, ilu, IsZeroVal(_)) ==
  IF ~("nsuper" \in DOMAIN L /\ "rowind" \in DOMAIN L /\ "colptr" \in DOMAIN U /\ "rowind" \in DOMAIN U) THEN "C03.dump"
  ELSE IF ~(L.nrow = m /\ L.ncol = n /\ U.nrow = n /\ U.ncol = n) THEN "C03.dims"
  ELSE IF ~SnodePartition(L, n) THEN "C03.partition"
  ELSE IF ~ColToSup(L, n) THEN "C03.col_to_sup"
  ELSE IF ~PointerShapes(L, n) THEN "C03.pointers"
  ELSE IF ~SharedRowList(L, n) THEN "C03.shared_rowlist"
  ELSE IF ~LeadingRows(L) THEN "C03.leading_rows"
  ELSE IF ~BelowRows(L, m) THEN "C03.below_rows"
  ELSE IF ~NnzL(L) THEN "C03.nnzL"
  ELSE IF ~UShapes(U, n) THEN "C03.Upointers"
  ELSE IF ~UAbove(L, U, n) THEN "C03.Uabove"
  ELSE IF ~UNoRepeats(U, n, ilu, IsZeroVal) THEN "C03.Urepeats"
  ELSE IF ~NnzU(L, U, n) THEN "C03.nnzU"
  ELSE IF ~AllocCovers(L, U) THEN "C03.alloc"
  ELSE "ok"

(***************************************************************************)
(* Symbolic factorization: the structure the storage must have.            *)
(* SuperLU never drops a numerically zero entry, so the stored structure is *)
(* determined by the pattern of Pr*A*Pc and the supernode partition alone:  *)
(* column j of the filled matrix is the set reached from the nonzero rows   *)
(* of (Pr*A*Pc)(:,j) by sweeping the earlier columns k = 0 .. j-1 in order  *)
(* and adding column k of L whenever row k has been reached.  Columns of a  *)
(* supernode share one row list (dense block, explicit zeros in relaxed     *)
(* supernodes), and U keeps, per earlier supernode it touches, the full     *)
(* segment from the first reached row to the supernode's last row.          *)
(* LC(k) = rows >= k of column k as stored.  MC_Symb checks that the sweep  *)
(* is the fill of Boolean Gaussian elimination.                             *)
(***************************************************************************)
RECURSIVE SymbSweep(_, _, _, _)
SymbSweep(LC(_), x, k, j) == IF k >= j THEN x ELSE SymbSweep(LC, IF k \in x THEN x \cup LC(k) ELSE x, k + 1, j)
SymbReach(LC(_), x, j) == SymbSweep(LC, x, 0, j)

SnodeRowSet(L, s) == {At(L.rowind, P0(L, s) + k) : k \in 0..(NSupR(L, s) - 1)}
StoredLCol(L, k) == {r \in SnodeRowSet(L, At(L.col_to_sup, k)) : r >= k}
\* PA(j) = set of (final) row positions of the nonzeros of column j of Pr*A*Pc
SymbColumn(L, PA(_), j) == SymbReach(LAMBDA k : StoredLCol(L, k), PA(j), j)
LStructureSymbolic(L, PA(_)) ==
  \A s \in 0..L.nsuper :
     SnodeRowSet(L, s) = (First(L, s)..(Last1(L, s) - 1)) \cup UNION {{r \in SymbColumn(L, PA, j) : r >= j} : j \in First(L, s)..(Last1(L, s) - 1)}
UStoredRows(U, j) == {At(U.rowind, q) : q \in At(U.colptr, j)..(At(U.colptr, j + 1) - 1)}
\* Per earlier supernode s: nothing is stored if no row of s is reached; otherwise one dense segment that ends at the
\* supernode's last row and starts at or above the first reached row (the depth-first search of the code lowers the
\* start to an earlier column of s when it walks through the supernode's own row list; those extra rows hold zeros).
SetMin(S) == CHOOSE r \in S : \A r2 \in S : r <= r2
USegmentsOK(L, stored, reached, j) ==
  \A s \in {t \in 0..L.nsuper : Last1(L, t) <= First(L, At(L.col_to_sup, j))} :
     LET hit == {r \in reached : r >= First(L, s) /\ r < Last1(L, s)}
         st == {r \in stored : r >= First(L, s) /\ r < Last1(L, s)}
     IN IF hit = {} THEN st = {}
        ELSE st # {} /\ st = SetMin(st)..(Last1(L, s) - 1) /\ SetMin(st) <= SetMin(hit)
UStructureSymbolic(L, U, n, PA(_)) ==
  \A j \in 0..(n - 1) : USegmentsOK(L, UStoredRows(U, j), SymbColumn(L, PA, j), j)
\* entries of U outside the reached set are explicit zeros
UUnreachedZero(L, U, n, PA(_), IsZeroVal(_)) ==
  \A j \in 0..(n - 1) : LET reached == SymbColumn(L, PA, j) IN
     \A q \in At(U.colptr, j)..(At(U.colptr, j + 1) - 1) : At(U.rowind, q) \notin reached => IsZeroVal(At(U.nzval, q))

(***************************************************************************)
(* Abstraction functions (defined on well-formed storage).                  *)
(* Raw(L,U): (i,j) |-> position information; the numeric modules map the    *)
(* logged value tokens through their own decoder V(_).                      *)
(***************************************************************************)
\* value token of the supernodal block at (row r, column j), or "none"
SnodeEntry(L, r, j) ==
  LET s == At(L.col_to_sup, j)
      K == {k \in 0..(NSupR(L, s) - 1) : At(L.rowind, P0(L, s) + k) = r}
  IN IF K = {} THEN <<FALSE, 0>> ELSE <<TRUE, At(L.nzval_colptr, j) + (CHOOSE k \in K : TRUE)>>
\* strictly lower part of L (unit diagonal implicit); V decodes a value token, Z is zero
DenseL(L, m, n, V(_), Z, One) ==
  [ij \in Range0(m) \X Range0(n) |->
     IF ij[1] = ij[2] THEN One
     ELSE IF ij[1] < ij[2] THEN Z
     ELSE LET e == SnodeEntry(L, ij[1], ij[2]) IN IF e[1] THEN V(At(L.nzval, e[2])) ELSE Z]
DenseU(L, U, n, V(_), Z) ==
  [ij \in Range0(n) \X Range0(n) |->
     IF ij[1] > ij[2] THEN Z
     ELSE IF ij[1] >= First(L, At(L.col_to_sup, ij[2]))
          THEN LET e == SnodeEntry(L, ij[1], ij[2]) IN IF e[1] THEN V(At(L.nzval, e[2])) ELSE Z
          ELSE LET Q == {q \in At(U.colptr, ij[2])..(At(U.colptr, ij[2] + 1) - 1) : At(U.rowind, q) = ij[1]} IN
               IF Q = {} THEN Z
               ELSE \* a repeated row index (incomplete LU only) carries an explicit zero: take the other one
                    LET NZ == {q \in Q : V(At(U.nzval, q)) # Z} IN
                    IF NZ = {} THEN Z ELSE V(At(U.nzval, CHOOSE q \in NZ : TRUE))]
=============================================================================
