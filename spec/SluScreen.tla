----------------------------- MODULE SluScreen -----------------------------
(***************************************************************************)
(* Argument screening of the drivers and computational routines (C18):     *)
(* per routine the ordered decision table of its header comment -- which   *)
(* argument position is blamed for which violated precondition.  A call is  *)
(* described by the set of preconditions it violates (named corruptions of  *)
(* an otherwise valid call); Screen returns -(position of the first        *)
(* offending argument), 0 when the call is acceptable.                      *)
(***************************************************************************)
EXTENDS Integers, Sequences, FiniteSets, TLC, Json

MatBad(p) == {p \o ".nonsquare", p \o ".negdim", p \o ".stype", p \o ".dtype", p \o ".mtype"}
DenseBad(p) == {p \o ".lda", p \o ".stype", p \o ".dtype", p \o ".mtype"}
\* ordered tables: << position, violated preconditions blamed on it >>
Table(routine) ==
  CASE routine = "gssv"  -> << <<1, {"opt.Fact"}>>, <<2, MatBad("A")>>, <<7, DenseBad("B") \cup {"B.ncolneg"}>> >>
    [] routine \in {"gssvx", "gsisx"} ->
         << <<1, {"opt.Fact", "opt.Trans", "opt.Equil"}>>, <<2, MatBad("A")>>, <<6, {"equed"}>>, <<7, {"R.nonpos"}>>, <<8, {"C.nonpos"}>>,
            <<12, {"lwork"}>>, <<13, DenseBad("B") \cup {"B.ncolneg"}>>, <<14, DenseBad("X") \cup {"X.ncolneg", "X.ncolmismatch"}>> >>
    [] routine = "gstrs" -> << <<1, {"trans"}>>, <<2, MatBad("L")>>, <<3, MatBad("U")>>, <<6, DenseBad("B")>> >>
    [] routine = "gsrfs" -> << <<1, {"trans"}>>, <<2, MatBad("A")>>, <<3, MatBad("L")>>, <<4, MatBad("U")>>, <<10, DenseBad("B")>>, <<11, DenseBad("X")>> >>
    [] routine = "gscon" -> << <<1, {"norm"}>>, <<2, MatBad("L")>>, <<3, MatBad("U")>> >>
    [] routine = "gsequ" -> << <<1, {"A.negdim", "A.stype", "A.dtype", "A.mtype"}>> >>
    [] routine = "trsv"  -> << <<1, {"uplo"}>>, <<2, {"trans"}>>, <<3, {"diag"}>>, <<4, {"L.nonsquare", "L.negdim"}>>, <<5, {"U.nonsquare", "U.negdim"}>> >>
Routines == {"gssv", "gssvx", "gsisx", "gstrs", "gsrfs", "gscon", "gsequ", "trsv"}
\* preconditions that only exist when pre-computed factors are supplied
NeedsFactored == {"equed", "R.nonpos", "C.nonpos"}
\* R is an input only when equed = R or B, C only when equed = C or B ("not accessed" otherwise)
EffectiveEq(corrs, eq) == (corrs \ (IF eq \in {"R", "B"} THEN {} ELSE {"R.nonpos"})) \ (IF eq \in {"C", "B"} THEN {} ELSE {"C.nonpos"})
AllCorr(routine) == UNION {Table(routine)[i][2] : i \in 1..Len(Table(routine))}

Screen(routine, corrs) ==
  LET T == Table(routine)
      hit == {i \in 1..Len(T) : T[i][2] \cap corrs # {}}
  IN IF hit = {} THEN 0 ELSE -T[CHOOSE i \in hit : \A k \in hit : i <= k][1]

\* ---- generator: every single-argument corruption of every routine, for the expert drivers under each of the four
\* Fact modes (an "otherwise valid call" may be a first factorization, a refactorization or a solve with supplied
\* factors), and every pair of corruptions (the position reported is that of the FIRST offending argument) ----
Modes(r) == IF r \in {"gssvx", "gsisx"} THEN 0 .. 3 ELSE {0}
Effective(r, corrs, mode) == IF r \in {"gssvx", "gsisx"} /\ mode # 3 THEN corrs \ NeedsFactored ELSE corrs
VARIABLE done
Init == done = FALSE
Next == /\ ~done /\ done' = TRUE
        /\ \A r \in Routines : \A c \in AllCorr(r) : \A m \in Modes(r) :
              PrintT(ToJson([routine |-> r, corrupt |-> <<c>>, expect |-> Screen(r, Effective(r, {c}, m)), mode |-> m]))
        /\ \A r \in Routines : \A cc \in {x \in SUBSET AllCorr(r) : Cardinality(x) = 2} : \A m \in Modes(r) \cap {0, 3} :
              LET a == CHOOSE x \in cc : TRUE  b == CHOOSE x \in cc : x # a IN
              PrintT(ToJson([routine |-> r, corrupt |-> <<a, b>>, expect |-> Screen(r, Effective(r, cc, m)), mode |-> m]))
Spec == Init /\ [][Next]_done
\* sanity of the tables: positions strictly increasing, a corruption is blamed on one position only
TablesOK == \A r \in Routines : LET T == Table(r) IN
              /\ \A i \in 1..(Len(T) - 1) : T[i][1] < T[i + 1][1]
              /\ \A i, k \in 1..Len(T) : i # k => T[i][2] \cap T[k][2] = {}
=============================================================================
