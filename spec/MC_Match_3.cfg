SPECIFICATION Spec
CONSTANT N = 3
INVARIANT OraclesAgree
INVARIANT BoundHolds
CHECK_DEADLOCK FALSE
