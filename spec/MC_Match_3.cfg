SPECIFICATION Spec
CONSTANT N = 3
INVARIANT OraclesAgree
INVARIANT BoundHolds
INVARIANT RecAgrees
INVARIANT DualCertifies
INVARIANT CertificateExists
CHECK_DEADLOCK FALSE
