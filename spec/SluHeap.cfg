SPECIFICATION Spec
CONSTANTS N = 5
Keys = 0
INVARIANT Emit
CHECK_DEADLOCK FALSE
