SPECIFICATION Spec
CONSTANTS
  M = 4
  N = 2
  RealVals = {0, 1, 2}
  ImagVals = {0}
  UDens = {1, 2}
  Perms = "all"
INVARIANT LeadingIdentity
INVARIANT MultiplierBound
INVARIANT UpperNonzeroDiag
INVARIANT SingularReported
CHECK_DEADLOCK FALSE
