SPECIFICATION SpecNeg2
CONSTANT N = 3
INVARIANT PolicyIsSafe
CHECK_DEADLOCK FALSE
