SPECIFICATION Spec
CONSTANTS
  Procs = {0, 1}
  Steps = 5
INVARIANT Independent
INVARIANT Emit
CHECK_DEADLOCK FALSE
