------------------------------ MODULE SluTrace ------------------------------
(***************************************************************************)
(* Trace validation: every line recorded by the harness (sluh_<t>) from the *)
(* real library is consumed by one action T_<event>, which binds the logged *)
(* fields and evaluates the specification's clauses on them.  The verdict   *)
(* of a line is never an assertion failure: violated clauses are *printed*  *)
(* (one JSON record per line, read back by bin/check.py), so one rejection  *)
(* never hides the rest of the batch.                                       *)
(*   bad : clauses violated outright (discrete, or exact on D2)             *)
(*   arb : exact-equality mismatches to be arbitrated by the property's own *)
(*         inequality (soundness rule S2, bin/ratcheck.py)                  *)
(*   cov : which clauses were evaluated non-vacuously on this line          *)
(***************************************************************************)
EXTENDS Integers, Sequences, FiniteSets, TLC, Json, IOUtils, Rat, SluStore, SluFactor

Tr == ndJsonDeserialize(IOEnv.TRACE)

Has(r, f) == f \in DOMAIN r
IsCplx(ty) == ty \in {"c", "z"}
TokOK(t) == Len(t) = 2 /\ DyOK(t)
ValOK(t, cplx) == IF cplx THEN TokOK(t[1]) /\ TokOK(t[2]) ELSE TokOK(t)
Val(t, cplx) == IF cplx THEN <<Dy(t[1]), Dy(t[2])>> ELSE <<Dy(t), RZero>>
TokIsZero(t, cplx) == IF cplx THEN t[1][1] = 0 /\ t[2][1] = 0 /\ Len(t[1]) = 2 /\ Len(t[2]) = 2 ELSE t[1] = 0 /\ Len(t) = 2
AllValOK(seq, cplx) == \A k \in 1..Len(seq) : ValOK(seq[k], cplx)

\* dense (row, col) -> value from logged triplets [r, c, tok]; `tr` = use the transpose
DenseOf(ent, m, n, cplx, tr) ==
  [ij \in Rows(m) \X Rows(n) |->
     LET S == {t \in 1..Len(ent) : IF tr THEN ent[t][2] = ij[1] /\ ent[t][1] = ij[2]
                                         ELSE ent[t][1] = ij[1] /\ ent[t][2] = ij[2]}
     IN IF S = {} THEN CZero ELSE Val(ent[CHOOSE t \in S : TRUE][3], cplx)]
PatternOf(ent, tr) == {IF tr THEN <<ent[t][2], ent[t][1]>> ELSE <<ent[t][1], ent[t][2]>> : t \in 1..Len(ent)}

(***************************************************************************)
(* Factorization verdict (C02, C03, C04) for a line that carries            *)
(* perm_c, perm_r, info, L, U.  F is the matrix that was factored, as       *)
(* (row, col) -> value (m x n), or <<>> when its values are not exact.      *)
(***************************************************************************)
FactorVerdict(ev, F, pat, m, n, u, uok, reuse, ilu) ==
  LET ty == ev.ty
      cplx == IsCplx(ty)
      info == ev.info
      done == info >= 0 /\ info <= n
      pcok == IsPerm(ev.perm_c, n)
      prok == IsPerm(ev.perm_r, m)
      \* C03 speaks about successful factorizations; after a singular return only the leading block is meaningful
      wf == IF info = 0 /\ Has(ev, "L") /\ Has(ev, "U") THEN WellFormed(ev.L, ev.U, m, n, ilu, LAMBDA t : TokIsZero(t, cplx))
            ELSE IF info = 0 THEN "C03.missing" ELSE "ok"
      \* what the numeric clauses need from the storage of a singular return: the shapes only
      shapes == Has(ev, "L") /\ Has(ev, "U") /\ Has(ev.L, "rowind") /\ Has(ev.U, "rowind")
                /\ SnodePartition(ev.L, n) /\ ColToSup(ev.L, n) /\ PointerShapes(ev.L, n) /\ UShapes(ev.U, n)
                /\ \A s \in 0..ev.L.nsuper : NSupR(ev.L, s) >= 0 /\ At(ev.L.nzval_colptr, Last1(ev.L, s)) - At(ev.L.nzval_colptr, First(ev.L, s)) = NSupR(ev.L, s) * NSupC(ev.L, s)
      ncols == IF info = 0 THEN n ELSE info - 1
      \* original row at pivot position k (first ncols positions)
      rowsAt(k) == {i \in Rows(m) : ev.perm_r[i + 1] = k}
      leadok == \A k \in 0..(ncols - 1) : Cardinality(rowsAt(k)) = 1
      ipr == [k \in 0..(ncols - 1) |-> CHOOSE i \in rowsAt(k) : TRUE]
      ipc == InvPerm(ev.perm_c, n)
      numeric == done /\ pcok /\ (info = 0 => prok) /\ leadok /\ wf = "ok" /\ (info > 0 => shapes) /\ F # <<>> /\ uok /\ ~ilu
      P == [ij \in Rows(m) \X Rows(n) |-> F[<<ij[1], ipc[ij[2]]>>]]
      st0 == [W |-> P, piv |-> <<>>, sing |-> 0, d2 |-> \A ij \in DOMAIN P : SmallV(P[ij], ty)]
      r == Replay(st0, 0, ncols, m, n, ipr, ipc, u, reuse, ty, {})
      \* after the leading columns: is column `info-1` really without a candidate ?
      atEnd == r.done = ncols /\ r.st.d2 /\ r.bad = {} /\ r.st.sing = 0
      lvalsok == AllValOK(ev.L.nzval, cplx) /\ AllValOK(ev.U.nzval, cplx)
      DL == DenseL(ev.L, m, n, LAMBDA t : Val(t, cplx), CZero, COne)
      DU == DenseU(ev.L, ev.U, n, LAMBDA t : Val(t, cplx), CZero)
      cols == r.done                       \* columns of L / rows of U that are final and exact in r.st
      pos(i) == ev.perm_r[i + 1]
      pivrows == {r.st.piv[k] : k \in 1..Len(r.st.piv)}
      lmis == \E j \in 0..(cols - 1) : \E i \in Rows(m) :
                 /\ (info = 0 \/ i \in pivrows)
                 /\ pos(i) > j /\ pos(i) < (IF info = 0 THEN m ELSE ncols)
                 /\ DL[<<pos(i), j>>] # r.st.W[<<i, j>>]
      umis == \E k \in 0..(cols - 1) : \E j \in k..((IF info = 0 THEN n ELSE ncols) - 1) :
                 DU[<<k, j>>] # r.st.W[<<r.st.piv[k + 1], j>>]
      udiag0 == info = 0 /\ lvalsok /\ \E k \in 0..(n - 1) : CIsZero(DU[<<k, k>>])
      bad ==
        (IF ~pcok THEN {"C02.perm_c_bijection"} ELSE {})
        \cup (IF info = 0 /\ ~prok THEN {"C02.perm_r_bijection"} ELSE {})
        \cup (IF wf # "ok" THEN {wf} ELSE {})
        \cup (IF done /\ pcok /\ ~leadok THEN {"C04.leading_pivots"} ELSE {})
        \cup (IF numeric THEN r.bad ELSE {})
        \cup (IF numeric /\ info = 0 /\ r.st.sing # 0 THEN {"C04.success_on_singular"} ELSE {})
        \cup (IF numeric /\ info > 0 /\ r.st.sing # 0 /\ r.st.sing < info THEN {"C04.info_too_late"} ELSE {})
        \cup (IF numeric /\ info > 0 /\ atEnd /\ ~NoCandidate(r.st, ncols, m) THEN {"C04.info_but_nonzero_candidate"} ELSE {})
        \* a structurally singular matrix reported as success: when the whole elimination was exact (D2) this is
        \* already C04.success_on_singular; otherwise rounding turned an exact cancellation into a tiny pivot
        \cup (IF done /\ info = 0 /\ m = n /\ StructurallySingular(pat, m, n) /\ ~(numeric /\ r.st.sing # 0)
              THEN {"C04.structural_missed_inexact"} ELSE {})
        \cup (IF done /\ wf = "ok" /\ udiag0 THEN {"C02.U_zero_diagonal"} ELSE {})
      arb ==
        \* anything TLC could not settle exactly goes to the rational side evaluator (rule S2 / float slice)
        (IF done /\ info = 0 /\ wf = "ok" /\ pcok /\ prok /\ ~ilu /\ ~(numeric /\ r.done = n /\ r.st.d2 /\ r.bad = {} /\ lvalsok /\ ~lmis /\ ~umis)
         THEN {"C02.LU_values"} ELSE {})
      cov ==
        (IF wf = "ok" /\ done THEN {"C03.wellformed"} ELSE {})
        \cup (IF numeric /\ r.done > 0 THEN {"C02.pivot_rule_exact"} ELSE {})
        \cup (IF numeric /\ info = 0 /\ r.done = n /\ r.st.d2 THEN {"C02.full_D2"} ELSE {})
        \cup (IF numeric /\ info > 0 /\ atEnd THEN {"C04.singular_exact"} ELSE {})
        \cup (IF numeric /\ cols > 0 /\ lvalsok /\ ~lmis /\ ~umis THEN {"C02.LU_values_exact"} ELSE {})
        \cup (IF info > n THEN {"mem.info_gt_n"} ELSE {})
  IN [bad |-> bad, arb |-> arb, cov |-> cov, d2 |-> numeric /\ info = 0 /\ r.done = n /\ r.st.d2]

(***************************************************************************)
(* op(A) X = B exactly (C01 / C05) on the exact domain: residual of the    *)
(* caller's own equations, computed from A0, X, B0 alone.                   *)
(*   opA  (row, col) -> value  of op(A0)                                    *)
(***************************************************************************)
\* operand bounds that keep the residual below 2^31 over the common denominator 2^12 (n <= 8)
TokBounded(p, mag) == TokOK(p) /\ LET v == Dy(p) IN v[2] <= 64 /\ Abs(v[1]) <= mag * v[2]
XTokSmall(t, cplx) == IF cplx THEN TokBounded(t[1], 256) /\ TokBounded(t[2], 256) ELSE TokBounded(t, 256)
ATokSmall(t, cplx) == IF cplx THEN TokBounded(t[1], 64) /\ TokBounded(t[2], 64) ELSE TokBounded(t, 64)
RECURSIVE RowDot(_, _, _, _, _)
RowDot(opA, i, x, n, c) == IF c = n THEN CZero ELSE CAdd(CMul(opA[<<i, c>>], x[c + 1]), RowDot(opA, i, x, n, c + 1))
ResidualZero(opA, n, xcol, bcol) == \A i \in Rows(n) : RowDot(opA, i, xcol, n, 0) = bcol[i + 1]

SolveVerdict(ev, opA, aok, n, Xcols, cplx, clause) ==
  LET nrhs == Len(ev.B0)
      colsok(k) == \A i \in 1..n : XTokSmall(Xcols[k][i], cplx) /\ ValOK(ev.B0[k][i], cplx)
      xv(k) == [i \in 1..n |-> Val(Xcols[k][i], cplx)]
      bv(k) == [i \in 1..n |-> Val(ev.B0[k][i], cplx)]
      exactcols == {k \in 1..nrhs : aok /\ colsok(k)}
      mism == {k \in exactcols : ~ResidualZero(opA, n, xv(k), bv(k))}
  IN [arb |-> (IF mism # {} \/ exactcols # 1..nrhs THEN {clause} ELSE {}),
      cov |-> (IF exactcols # {} /\ mism = {} THEN {clause \o "_exact"} ELSE {}),
      nexact |-> Cardinality(exactcols \ mism)]

UTok(ev) == ev.opts.u
UOK(ev) == TokOK(UTok(ev)) /\ RIsPow2(Dy(UTok(ev))) /\ UTok(ev)[2] >= 0 /\ UTok(ev)[2] <= 10

(***************************************************************************)
(* ?gssv  (simple driver): C01, C02, C03, C04, C19 (ledger clause)          *)
(***************************************************************************)
LedgerBad(ev) == (IF ev.ledger.live_internal # 0 THEN {"C19.leak"} ELSE {})
                 \cup (IF ev.ledger.bad_frees # 0 THEN {"C19.bad_free"} ELSE {})
                 \cup (IF ev.ledger.redzone # 0 \/ ev.ledger.sweep # 0 THEN {"C19.redzone"} ELSE {})

GssvVerdict(ev) ==
  LET n == ev.n  cplx == IsCplx(ev.ty)
      tr == ev.fmt = "NR"                      \* row storage: the library factors the transpose
      aok == \A t \in 1..Len(ev.A0) : ValOK(ev.A0[t][3], cplx)
      asmall == \A t \in 1..Len(ev.A0) : ATokSmall(ev.A0[t][3], cplx)
      F == IF aok THEN DenseOf(ev.A0, n, n, cplx, tr) ELSE <<>>
      fv == FactorVerdict(ev, F, PatternOf(ev.A0, tr), n, n, Dy(UTok(ev)), UOK(ev), FALSE, FALSE)
      A == DenseOf(ev.A0, n, n, cplx, FALSE)
      sv == IF ev.info = 0 /\ Has(ev, "B0") /\ ev.nrhs > 0
            THEN SolveVerdict(ev, A, aok /\ asmall, n, ev.B1, cplx, "C01.residual")
            ELSE [arb |-> {}, cov |-> {}, nexact |-> 0]
      bad == fv.bad
        \cup (IF ev.info # 0 /\ Has(ev, "B_same") /\ ev.B_same # 1 THEN {"C04.B_modified"} ELSE {})
        \cup (IF Has(ev, "padB_same") /\ ev.padB_same # 1 THEN {"C01.padding_written"} ELSE {})
        \cup (IF \E k \in 1..Len(ev.A1v) : ev.A1v[k] # ev.A0[k][3] THEN {"C01.A_modified"} ELSE {})
        \cup (IF ev.Astruct_same # 1 THEN {"C01.A_structure_modified"} ELSE {})
        \cup (IF ev.info < 0 THEN {"C18.unexpected_negative_info"} ELSE {})
        \cup LedgerBad(ev)
  IN [bad |-> bad, arb |-> fv.arb \cup sv.arb, cov |-> fv.cov \cup sv.cov]

(***************************************************************************)
(* ?gstrf called as the Fortran bridge does (get_perm_c, sp_preorder,      *)
(* ?gstrf): m >= n, caller-supplied perm_c allowed.                         *)
(***************************************************************************)
GstrfVerdict(ev) ==
  LET m == ev.m  n == ev.n  cplx == IsCplx(ev.ty)
      aok == \A t \in 1..Len(ev.A0) : ValOK(ev.A0[t][3], cplx)
      F == IF aok THEN DenseOf(ev.A0, m, n, cplx, FALSE) ELSE <<>>
      fv == FactorVerdict(ev, F, PatternOf(ev.A0, FALSE), m, n, Dy(UTok(ev)), UOK(ev), ev.opts.Fact = 2, FALSE)
      bad == fv.bad
        \cup (IF \E k \in 1..Len(ev.A1v) : ev.A1v[k] # ev.A0[k][3] THEN {"C02.A_modified"} ELSE {})
        \cup LedgerBad(ev)
  IN [bad |-> bad, arb |-> fv.arb, cov |-> fv.cov]

Verdict(ev) ==
  IF ev.e = "Ret" THEN
     (CASE ev.fn = "gssv" -> GssvVerdict(ev)
        [] ev.fn = "gstrf" -> GstrfVerdict(ev)
        [] OTHER -> [bad |-> {}, arb |-> {}, cov |-> {"unjudged"}])
  ELSE IF ev.e = "Done" THEN
     [bad |-> (IF ev.status # "ok" THEN {"C19.abnormal_end_" \o ev.status} ELSE {}), arb |-> {}, cov |-> {}]
  ELSE IF ev.e = "Ledger" THEN
     [bad |-> (IF ev.ledger.live # 0 THEN {"C19.leak_at_end"} ELSE {}) \cup LedgerBad(ev), arb |-> {}, cov |-> {"C19.ledger_end"}]
  ELSE [bad |-> {}, arb |-> {}, cov |-> {}]

VARIABLES l
vars == <<l>>
TInit == l = 1
TNext == /\ l <= Len(Tr)
         /\ LET ev == Tr[l]  v == Verdict(ev) IN
            PrintT(ToJson([line |-> l, id |-> (IF Has(ev, "id") THEN ev.id ELSE ""), e |-> ev.e,
                           fn |-> (IF Has(ev, "fn") THEN ev.fn ELSE ""),
                           bad |-> v.bad, arb |-> v.arb, cov |-> v.cov]))
         /\ l' = l + 1
TraceSpec == TInit /\ [][TNext]_vars
TraceAccepted == TLCGet("stats").diameter - 1 = Len(Tr)
=============================================================================
