------------------------------ MODULE SluTrace ------------------------------
(***************************************************************************)
(* Trace validation: every line recorded by the harness (sluh_<t>) from the *)
(* real library is consumed by one action T_<event>, which binds the logged *)
(* fields and evaluates the specification's clauses on them.  The verdict   *)
(* of a line is never an assertion failure: violated clauses are *printed*  *)
(* (one JSON record per line, read back by bin/check.py), so one rejection  *)
(* never hides the rest of the batch.                                       *)
(*   bad : clauses violated outright (discrete, or exact on D2)             *)
(*   arb : exact-equality mismatches to be arbitrated by the property's own *)
(*         inequality (soundness rule S2, bin/ratcheck.py)                  *)
(*   cov : which clauses were evaluated non-vacuously on this line          *)
(***************************************************************************)
EXTENDS Integers, Sequences, FiniteSets, TLC, Json, IOUtils, Rat, SluStore, SluFactor, SluSolve, SluEquil, SluCond, SluOrder, SluMatch, SluHeapOps

Tr == ndJsonDeserialize(IOEnv.TRACE)
\* MODE = "light": storage / allocator clauses only (the numeric replay of the factorization is skipped;
\* it is carried by the runs of C01-C06 on the same code paths)
Light == "MODE" \in DOMAIN IOEnv /\ IOEnv.MODE = "light"
\* BITWISE = "all": the library under test was built with the bundled C BLAS loops, whose results do not depend on
\* the alignment of their operands, so runs are comparable bit for bit whatever the data.  Otherwise (vendor BLAS)
\* bit-for-bit agreement is demanded only when the reference run was exact (D2), see DESIGN C07.
BitwiseAll == "BITWISE" \in DOMAIN IOEnv /\ IOEnv.BITWISE = "all"

Has(r, f) == f \in DOMAIN r
IsCplx(ty) == ty \in {"c", "z"}
TokOK(t) == Len(t) = 2 /\ DyOK(t)
ValOK(t, cplx) == IF cplx THEN TokOK(t[1]) /\ TokOK(t[2]) ELSE TokOK(t)
Val(t, cplx) == IF cplx THEN <<Dy(t[1]), Dy(t[2])>> ELSE <<Dy(t), RZero>>
TokIsZero(t, cplx) == IF cplx THEN t[1][1] = 0 /\ t[2][1] = 0 /\ Len(t[1]) = 2 /\ Len(t[2]) = 2 ELSE t[1] = 0 /\ Len(t) = 2
AllValOK(seq, cplx) == \A k \in 1..Len(seq) : ValOK(seq[k], cplx)

\* dense (row, col) -> value from logged triplets [r, c, tok]; `tr` = use the transpose
DenseOf(ent, m, n, cplx, tr) ==
  [ij \in Rows(m) \X Rows(n) |->
     LET S == {t \in 1..Len(ent) : IF tr THEN ent[t][2] = ij[1] /\ ent[t][1] = ij[2]
                                         ELSE ent[t][1] = ij[1] /\ ent[t][2] = ij[2]}
     IN IF S = {} THEN CZero ELSE Val(ent[CHOOSE t \in S : TRUE][3], cplx)]
SeqToFn(s, n) == [i \in Cols(n) |-> s[i + 1]]
IsPermSeq(s, n) == Len(s) = n /\ {s[i] : i \in 1..n} = Cols(n)
PatternOf(ent, tr) == {IF tr THEN <<ent[t][2], ent[t][1]>> ELSE <<ent[t][1], ent[t][2]>> : t \in 1..Len(ent)}

(***************************************************************************)
(* Factorization verdict (C02, C03, C04) for a line that carries            *)
(* perm_c, perm_r, info, L, U.  F is the matrix that was factored, as       *)
(* (row, col) -> value (m x n), or <<>> when its values are not exact.      *)
(***************************************************************************)
FactorVerdict2(ev, F, pat, m, n, u, uok, reuse, ilu, wfilu) ==
  LET ty == ev.ty
      cplx == IsCplx(ty)
      info == ev.info
      done == info >= 0 /\ info <= n
      pcok == IsPerm(ev.perm_c, n)
      prok == IsPerm(ev.perm_r, m)
      \* C03 speaks about successful factorizations; after a singular return only the leading block is meaningful
      wf == IF info = 0 /\ Has(ev, "L") /\ Has(ev, "U") THEN WellFormed(ev.L, ev.U, m, n, wfilu, LAMBDA t : TokIsZero(t, cplx))
            ELSE IF info = 0 THEN "C03.missing" ELSE "ok"
      \* what the numeric clauses need from the storage of a singular return: the shapes only
      shapes == Has(ev, "L") /\ Has(ev, "U") /\ Has(ev.L, "rowind") /\ Has(ev.U, "rowind")
                /\ SnodePartition(ev.L, n) /\ ColToSup(ev.L, n) /\ PointerShapes(ev.L, n) /\ UShapes(ev.U, n)
                /\ \A s \in 0..ev.L.nsuper : NSupR(ev.L, s) >= 0 /\ At(ev.L.nzval_colptr, Last1(ev.L, s)) - At(ev.L.nzval_colptr, First(ev.L, s)) = NSupR(ev.L, s) * NSupC(ev.L, s)
      ncols == IF info = 0 THEN n ELSE info - 1
      \* original row at pivot position k (first ncols positions)
      rowsAt(k) == {i \in Rows(m) : ev.perm_r[i + 1] = k}
      leadok == \A k \in 0..(ncols - 1) : Cardinality(rowsAt(k)) = 1
      ipr == [k \in 0..(ncols - 1) |-> CHOOSE i \in rowsAt(k) : TRUE]
      ipc == InvPerm(ev.perm_c, n)
      numeric == ~Light /\ done /\ pcok /\ (info = 0 => prok) /\ leadok /\ wf = "ok" /\ (info > 0 => shapes) /\ F # <<>> /\ uok /\ ~ilu
      P == [ij \in Rows(m) \X Rows(n) |-> F[<<ij[1], ipc[ij[2]]>>]]
      st0 == [W |-> P, piv |-> <<>>, sing |-> 0, d2 |-> \A ij \in DOMAIN P : SmallV(P[ij], ty)]
      r == Replay(st0, 0, ncols, m, n, ipr, ipc, u, reuse, ty, {})
      \* after the leading columns: is column `info-1` really without a candidate ?
      atEnd == r.done = ncols /\ r.st.d2 /\ r.bad = {} /\ r.st.sing = 0
      lvalsok == AllValOK(ev.L.nzval, cplx) /\ AllValOK(ev.U.nzval, cplx)
      DL == DenseL(ev.L, m, n, LAMBDA t : Val(t, cplx), CZero, COne)
      DU == DenseU(ev.L, ev.U, n, LAMBDA t : Val(t, cplx), CZero)
      cols == r.done                       \* columns of L / rows of U that are final and exact in r.st
      pos(i) == ev.perm_r[i + 1]
      pivrows == {r.st.piv[k] : k \in 1..Len(r.st.piv)}
      lmis == \E j \in 0..(cols - 1) : \E i \in Rows(m) :
                 /\ (info = 0 \/ i \in pivrows)
                 /\ pos(i) > j /\ pos(i) < (IF info = 0 THEN m ELSE ncols)
                 /\ DL[<<pos(i), j>>] # r.st.W[<<i, j>>]
      umis == \E k \in 0..(cols - 1) : \E j \in k..((IF info = 0 THEN n ELSE ncols) - 1) :
                 DU[<<k, j>>] # r.st.W[<<r.st.piv[k + 1], j>>]
      \* U's diagonal lives in the supernodal storage; read as tokens so that the clause does not depend on the other
      \* values being finite (a zero pivot that was divided by leaves inf / NaN everywhere else)
      udiagTok(j) == LET e == SnodeEntry(ev.L, j, j) IN IF e[1] THEN At(ev.L.nzval, e[2]) ELSE (IF cplx THEN <<<<0, 0>>, <<0, 0>>>> ELSE <<0, 0>>)
      symb == done /\ info = 0 /\ wf = "ok" /\ pcok /\ prok /\ ~ilu /\ ~wfilu /\ n <= 24
      PAcol(j) == {ev.perm_r[e[1] + 1] : e \in {x \in pat : x[2] = ipc[j]}}
      udiag0 == info = 0 /\ m = n /\ \E k \in 0..(n - 1) : TokIsZero(udiagTok(k), cplx)
      bad ==
        (IF ~pcok THEN {"C02.perm_c_bijection"} ELSE {})
        \cup (IF info = 0 /\ ~prok THEN {"C02.perm_r_bijection"} ELSE {})
        \cup (IF wf # "ok" THEN {wf, "C02.factors_not_well_formed"} ELSE {})
        \cup (IF done /\ pcok /\ ~leadok THEN {"C04.leading_pivots"} ELSE {})
        \cup (IF numeric THEN r.bad ELSE {})
        \cup (IF numeric /\ info = 0 /\ r.st.sing # 0 THEN {"C04.success_on_singular"} ELSE {})
        \cup (IF numeric /\ info > 0 /\ r.st.sing # 0 /\ r.st.sing < info THEN {"C04.info_too_late"} ELSE {})
        \cup (IF numeric /\ info > 0 /\ atEnd /\ ~NoCandidate(r.st, ncols, m) THEN {"C04.info_but_nonzero_candidate"} ELSE {})
        \* a structurally singular matrix reported as success: when the whole elimination was exact (D2) this is
        \* already C04.success_on_singular; otherwise rounding turned an exact cancellation into a tiny pivot
        \cup (IF done /\ info = 0 /\ m = n /\ n <= 10 /\ StructurallySingular(pat, m, n) /\ ~(numeric /\ r.st.sing # 0)
              THEN {"C04.structural_missed_inexact"} ELSE {})
        \cup (IF done /\ wf = "ok" /\ udiag0 THEN {"C02.U_zero_diagonal", "C04.success_with_zero_on_U_diagonal"} ELSE {})
        \* the stored structure is exactly the symbolic factorization of Pr*A*Pc for the returned supernode partition
        \cup (IF symb /\ ~LStructureSymbolic(ev.L, PAcol) THEN {"C03.L_structure_not_symbolic"} ELSE {})
        \cup (IF symb /\ ~UStructureSymbolic(ev.L, ev.U, n, PAcol) THEN {"C03.U_structure_not_symbolic"} ELSE {})
        \cup (IF symb /\ UStructureSymbolic(ev.L, ev.U, n, PAcol) /\ ~UUnreachedZero(ev.L, ev.U, n, PAcol, LAMBDA t : TokIsZero(t, cplx))
              THEN {"C02.U_nonzero_outside_symbolic_structure"} ELSE {})
      arb ==
        \* anything TLC could not settle exactly goes to the rational side evaluator (rule S2 / float slice)
        (IF done /\ info = 0 /\ wf = "ok" /\ pcok /\ prok /\ ~ilu /\ ~(numeric /\ r.done = n /\ r.st.d2 /\ r.bad = {} /\ lvalsok /\ ~lmis /\ ~umis)
         THEN {"C02.LU_values"} ELSE {})
      cov ==
        (IF wf = "ok" /\ done THEN {"C03.wellformed"} ELSE {})
        \cup (IF symb THEN {"C03.symbolic_structure_checked"} ELSE {})
        \cup (IF numeric /\ r.done > 0 THEN {"C02.pivot_rule_exact"} ELSE {})
        \cup (IF numeric /\ info = 0 /\ r.done = n /\ r.st.d2 THEN {"C02.full_D2"} ELSE {})
        \cup (IF numeric /\ info > 0 /\ atEnd THEN {"C04.singular_exact"} ELSE {})
        \cup (IF numeric /\ cols > 0 /\ lvalsok /\ ~lmis /\ ~umis THEN {"C02.LU_values_exact"} ELSE {})
        \cup (IF info > n THEN {"mem.info_gt_n"} ELSE {})
  IN [bad |-> bad, arb |-> arb, cov |-> cov, d2 |-> numeric /\ info = 0 /\ r.done = n /\ r.st.d2]
FactorVerdict(ev, F, pat, m, n, u, uok, reuse, ilu) == FactorVerdict2(ev, F, pat, m, n, u, uok, reuse, ilu, ilu)

(***************************************************************************)
(* op(A) X = B exactly (C01 / C05) on the exact domain: residual of the    *)
(* caller's own equations, computed from A0, X, B0 alone.                   *)
(*   opA  (row, col) -> value  of op(A0)                                    *)
(***************************************************************************)
\* operand bounds that keep the residual below 2^31 over the common denominator 2^12 (n <= 8)
TokBounded(p, mag) == TokOK(p) /\ LET v == Dy(p) IN v[2] <= 64 /\ Abs(v[1]) <= mag * v[2]
XTokSmall(t, cplx) == IF cplx THEN TokBounded(t[1], 256) /\ TokBounded(t[2], 256) ELSE TokBounded(t, 256)
ATokSmall(t, cplx) == IF cplx THEN TokBounded(t[1], 64) /\ TokBounded(t[2], 64) ELSE TokBounded(t, 64)
RECURSIVE RowDot(_, _, _, _, _)
RowDot(opA, i, x, n, c) == IF c = n THEN CZero ELSE CAdd(CMul(opA[<<i, c>>], x[c + 1]), RowDot(opA, i, x, n, c + 1))
ResidualZero(opA, n, xcol, bcol) == \A i \in Rows(n) : RowDot(opA, i, xcol, n, 0) = bcol[i + 1]

SolveVerdict(ev, opA, aok, n, Xcols, cplx, clause) ==
  LET nrhs == Len(ev.B0)
      colsok(k) == \A i \in 1..n : XTokSmall(Xcols[k][i], cplx) /\ ValOK(ev.B0[k][i], cplx)
      xv(k) == [i \in 1..n |-> Val(Xcols[k][i], cplx)]
      bv(k) == [i \in 1..n |-> Val(ev.B0[k][i], cplx)]
      exactcols == {k \in 1..nrhs : aok /\ colsok(k)}
      mism == {k \in exactcols : ~ResidualZero(opA, n, xv(k), bv(k))}
  IN [arb |-> (IF mism # {} \/ exactcols # 1..nrhs THEN {clause} ELSE {}),
      cov |-> (IF exactcols # {} /\ mism = {} THEN {clause \o "_exact"} ELSE {}),
      nexact |-> Cardinality(exactcols \ mism), allexact |-> (exactcols = 1..nrhs /\ mism = {})]

FiniteNonNeg(t) == IF Len(t) = 2 THEN t[1] >= 0 ELSE (t[1] = 1 /\ t[5] < 80000)
UTok(ev) == ev.opts.u
UOK(ev) == TokOK(UTok(ev)) /\ (RIsZero(Dy(UTok(ev))) \/ RIsPow2(Dy(UTok(ev)))) /\ UTok(ev)[2] >= 0 /\ UTok(ev)[2] <= 10   \* u = 0 is legal: any nonzero pivot passes

(***************************************************************************)
(* ?gssv  (simple driver): C01, C02, C03, C04, C19 (ledger clause)          *)
(***************************************************************************)
\* allocation ledger after a call: nothing of the library's own is still allocated (blocks handed to the caller are
\* marked by the harness), every free hit a live block, guard bytes of all blocks intact.  `cls` names the outcome.
LedgerCls(ev, cls) == (IF ev.ledger.live_internal # 0 THEN {"C19.leak" \o cls} ELSE {})
                      \cup (IF ev.ledger.bad_frees # 0 THEN {"C19.bad_free" \o cls} ELSE {})
                      \cup (IF ev.ledger.redzone # 0 \/ ev.ledger.sweep # 0 THEN {"C19.redzone"} ELSE {})
LedgerBad(ev) == LedgerCls(ev, "")
OutcomeCls(ev) == IF ~Has(ev, "info") THEN ""
                  ELSE IF Has(ev, "work") /\ ev.work.lwork = -1 THEN "_on_query"
                  ELSE IF ev.info < 0 THEN "_on_rejected"
                  ELSE IF ev.info = 0 \/ ev.info = ev.n + 1 THEN ""
                  ELSE IF ev.info <= ev.n THEN (IF ev.fn = "gsisx" THEN "" ELSE "_on_singular")
                  ELSE "_on_outofspace"

GssvVerdict(ev) ==
  LET n == ev.n  cplx == IsCplx(ev.ty)
      tr == ev.fmt = "NR"                      \* row storage: the library factors the transpose
      aok == \A t \in 1..Len(ev.A0) : ValOK(ev.A0[t][3], cplx)
      asmall == \A t \in 1..Len(ev.A0) : ATokSmall(ev.A0[t][3], cplx)
      F == IF aok THEN DenseOf(ev.A0, n, n, cplx, tr) ELSE <<>>
      fv == FactorVerdict(ev, F, PatternOf(ev.A0, tr), n, n, Dy(UTok(ev)), UOK(ev), FALSE, FALSE)
      A == DenseOf(ev.A0, n, n, cplx, FALSE)
      sv == IF ev.info = 0 /\ Has(ev, "B0") /\ ev.nrhs > 0
            THEN SolveVerdict(ev, A, aok /\ asmall, n, ev.B1, cplx, "C01.residual")
            ELSE [arb |-> {}, cov |-> {}, nexact |-> 0, allexact |-> FALSE]
      bad == fv.bad
        \cup (IF ev.info # 0 /\ Has(ev, "B_same") /\ ev.B_same # 1 THEN {"C04.B_modified"} ELSE {})
        \cup (IF Has(ev, "padB_same") /\ ev.padB_same # 1 THEN {"C01.padding_written"} ELSE {})
        \cup (IF \E k \in 1..Len(ev.A1v) : ev.A1v[k] # ev.A0[k][3] THEN {"C01.A_modified"} ELSE {})
        \cup (IF ev.Astruct_same # 1 THEN {"C01.A_structure_modified"} ELSE {})
        \cup (IF ev.info < 0 THEN {"C18.unexpected_negative_info"} ELSE {})
        \cup LedgerCls(ev, OutcomeCls(ev))
  IN [bad |-> bad, arb |-> fv.arb \cup sv.arb, cov |-> fv.cov \cup sv.cov]

(***************************************************************************)
(* ?gstrf called as the Fortran bridge does (get_perm_c, sp_preorder,      *)
(* ?gstrf): m >= n, caller-supplied perm_c allowed.                         *)
(***************************************************************************)
GstrfVerdict(ev) ==
  LET m == ev.m  n == ev.n  cplx == IsCplx(ev.ty)
      aok == \A t \in 1..Len(ev.A0) : ValOK(ev.A0[t][3], cplx)
      F == IF aok THEN DenseOf(ev.A0, m, n, cplx, FALSE) ELSE <<>>
      fv == FactorVerdict(ev, F, PatternOf(ev.A0, FALSE), m, n, Dy(UTok(ev)), UOK(ev), ev.opts.Fact = 2, FALSE)
      bad == fv.bad
        \cup (IF Len(ev.A1v) # Len(ev.A0) \/ \E k \in 1..Len(ev.A1v) : ev.A1v[k] # ev.A0[k][3] THEN {"C02.A_modified"} ELSE {})
        \* column order and elimination tree are inputs of the factor routine: what sp_preorder returned is what the caller keeps
        \* a caller workspace is never overrun; with one, the outcome is a reported shortage (info > n) or a factorization (C08)
        \cup (IF Has(ev, "work") /\ ev.work.guards_ok # 1 THEN {"C08.guard_overrun"} ELSE {})
        \cup (IF Has(ev, "work") /\ ev.work.lwork > 0 /\ ev.info < 0 THEN {"C08.shortage_not_reported"} ELSE {})
        \cup (IF Has(ev, "order_in_same") /\ ev.order_in_same # <<1, 1>> THEN {"C10.factor_routine_wrote_ordering_or_tree", "C06.etree_not_reused"} ELSE {})
        \cup LedgerCls(ev, OutcomeCls(ev))
  IN [bad |-> bad, arb |-> fv.arb, cov |-> fv.cov \cup (IF Has(ev, "order_in_same") THEN {"C10.factor_inputs_checked"} ELSE {})
                                            \cup (IF Has(ev, "work") /\ ev.work.lwork > 0 THEN {"C08.user_workspace_factor_routine" \o (IF m > n THEN "_tall" ELSE "")} ELSE {})]

(***************************************************************************)
(* Memory events (hooks in [sdcz]memory.c, DESIGN 4.2): safety layer of     *)
(* SluMem evaluated on the logged allocator state -- accounting identities  *)
(* of the two-ended stack, regions ordered / disjoint / inside the stack,   *)
(* cursors inside capacity, a granted expansion grows.  pm = previous       *)
(* memory event of the same call (or <<>>).                                 *)
(***************************************************************************)
DWordOf(ty) == CASE ty = "s" -> 4 [] ty = "d" -> 8 [] ty = "c" -> 8 [] ty = "z" -> 16
IsUser(ev) == ev.model = 1
SaneStack(ev) == IsUser(ev) => LET s == ev.st IN /\ 0 <= s[3] /\ s[3] <= s[4] /\ s[4] <= s[1]
                                                 /\ s[2] = s[3] + (s[1] - s[4])
ExValid(ev) == Has(ev, "ex") /\ \A t \in 1..4 : ev.ex[t][2] >= 0 /\ (IF IsUser(ev) THEN ev.ex[t][1] >= 0 ELSE ev.ex[t][1] = 1)
RegionsOrdered(ev, dw, liw) ==
  (IsUser(ev) /\ Has(ev, "ex")) =>
     LET w(t) == IF t <= 2 THEN dw ELSE liw IN
     /\ \A t \in 1..3 : ev.ex[t][1] + ev.ex[t][2] * w(t) <= ev.ex[t + 1][1]
     /\ ev.ex[4][1] + ev.ex[4][2] * liw <= ev.st[3]
     /\ \A t \in 1..2 : (ev.ex[t][1] + ev.al) % (IF dw >= 8 THEN 8 ELSE 4) = 0        \* values aligned to their own size
MemVerdict(pm, ev, ty, liw) ==
  LET dw == DWordOf(ty)
      e == ev.e
      \* points at which the factorization goes on with this allocator state (an expansion request that is
      \* immediately followed by a refusal of its companion request and an error return is not one of them)
      stable == e \in {"Col", "WorkFree"} \/ (e = "InitReturn" /\ ev.ret = 0)
      bad ==
        (IF stable /\ ~SaneStack(ev) THEN {"C08.stack_sane"} ELSE {})
        \* the accounting is also consistent right after every granted growth request (what StackFull will test next)
        \cup (IF e = "Expand" /\ ev.ok = 1 /\ Has(ev, "st") /\ ~SaneStack(ev) THEN {"C08.stack_accounting_after_growth"} ELSE {})
        \cup (IF stable /\ e # "WorkFree" /\ ~(ExValid(ev) /\ RegionsOrdered(ev, dw, liw)) THEN {"C08.regions_ordered"} ELSE {})
        \cup (IF e = "Col" /\ ~(ev.nextl <= ev.nz[3] /\ ev.nextlu <= ev.nz[1] /\ ev.nextu <= ev.nz[2]) THEN {"C08.cursor_in_capacity"} ELSE {})
        \* the values and the subscripts of U grow together: one capacity (nzumax) for both arrays, and each array really has
        \* the capacity the cursors are tested against
        \cup (IF e = "Col" /\ Has(ev, "ex") /\ ExValid(ev) /\ ~(ev.ex[2][2] = ev.nz[2] /\ ev.ex[4][2] = ev.nz[2] /\ ev.ex[1][2] = ev.nz[1] /\ ev.ex[3][2] = ev.nz[3])
              THEN {"C08.capacity_differs_from_array_length"} ELSE {})
        \cup (IF e = "UMalloc" /\ pm # <<>> /\ Has(pm, "st") /\ ev.ok = 1 /\
                 ~(ev.off >= pm.st[3] /\ ev.off + ev.bytes <= pm.st[4] /\ ev.st[2] = pm.st[2] + ev.bytes /\ ev.bytes >= 0)
              THEN {"C08.stack_push_accounting"} ELSE {})
        \cup (IF e = "UMalloc" /\ pm # <<>> /\ Has(pm, "st") /\ ev.ok = 0 /\ ev.st # pm.st THEN {"C08.refused_push_changed_stack"} ELSE {})
        \cup (IF e = "Expand" /\ pm # <<>> /\ pm.e = "ExpandBegin" /\ pm.numexp > 0 /\ ev.ok = 1 /\ ev.keep_prev = 0 /\ ~(ev.new_len > pm.prev_len)
              THEN {"C08.expand_grows"} ELSE {})
      cov == (IF stable THEN {"C08.alloc_state_checked"} ELSE {}) \cup (IF e = "Expand" /\ pm # <<>> /\ pm.e = "ExpandBegin" /\ pm.numexp > 0 THEN {"C08.expansion_seen"} ELSE {})
  IN [bad |-> bad, arb |-> {}, cov |-> cov]
MemFailure(ev) == (ev.e = "Xpand" /\ ev.ok = 0) \/ (ev.e = "InitReturn" /\ ev.ret # 0 /\ ev.lwork # -1)
(***************************************************************************)
(* Refinement loop events (hooks in [sdcz]gsrfs.c): per right-hand side     *)
(* count starts at 0, a step is taken iff berr > eps, berr halved since the *)
(* last step and fewer than five steps were taken; never more than five.    *)
(* rf = [j, count, lastdec] : state of the loop automaton.                  *)
(***************************************************************************)
IsRefineEvent(ev) == ev.e \in {"RefineIter", "RefineStep", "RefineStop"}
RefineVerdict(rf, ev) ==
  LET bad ==
        (IF ev.e = "RefineIter" /\ ev.count > 5 THEN {"C13.more_than_five_steps"} ELSE {})
        \cup (IF ev.e = "RefineIter" /\ ev.j = rf.j /\ ev.count # rf.count THEN {"C13.loop_count"} ELSE {})
        \cup (IF ev.e = "RefineIter" /\ ev.j # rf.j /\ ev.count # 0 THEN {"C13.loop_count_not_reset"} ELSE {})
        \cup (IF ev.e = "RefineIter" /\ ev.count = 0 /\ ev.lstres # <<3, 0>> THEN {"C13.lstres_not_reset"} ELSE {})
        \cup (IF ev.e = "RefineStep" /\ ~(rf.want /\ ev.count = rf.count + 1) THEN {"C13.step_against_rule"} ELSE {})
        \cup (IF ev.e = "RefineStop" /\ rf.want THEN {"C13.stop_against_rule"} ELSE {})
        \* BERR(j) is the backward error of the *returned* X: after an update the residual is evaluated again for the same
        \* right-hand side before the loop is left (also after the fifth update)
        \cup (IF rf.stepped /\ ~(ev.e = "RefineIter" /\ ev.j = rf.j) THEN {"C13.berr_not_recomputed_after_last_update"} ELSE {})
  IN [bad |-> bad, arb |-> {}, cov |-> (IF ev.e = "RefineStep" THEN {"C13.refinement_step_taken"} \cup (IF ev.count = 5 THEN {"C13.fifth_step_taken"} ELSE {})
                                        ELSE IF ev.e = "RefineStop" THEN {"C13.refinement_loop_checked"} ELSE {})]
RefineNext(rf, ev) ==
  IF ev.e = "RefineIter" THEN [j |-> ev.j, count |-> ev.count, want |-> (ev.gt_eps = 1 /\ ev.halved = 1 /\ ev.count < 5), stepped |-> FALSE]
  ELSE IF ev.e = "RefineStep" THEN [rf EXCEPT !.count = ev.count, !.want = FALSE, !.stepped = TRUE]
  ELSE [j |-> -1, count |-> 0, want |-> FALSE, stepped |-> FALSE]
IsMemEvent(ev) == ev.e \in {"MemSetup", "UMalloc", "UFree", "ExpandBegin", "Expand", "Xpand", "InitExpands", "InitRetry", "WorkInit", "InitReturn", "WorkFree", "Col", "FactEnd"}

\* helpers shared by the kernel and ILU verdicts
UpFlag(f) == CASE f \in {"L", "l"} -> "L" [] f \in {"U", "u"} -> "U" [] f \in {"N", "n"} -> "N" [] f \in {"T", "t"} -> "T" [] f \in {"C", "c"} -> "C" [] OTHER -> "?"
SmallTokK(t, cplx, k) == LET ok1(p) == TokOK(p) /\ LET v == Dy(p) IN Abs(v[1]) <= k /\ v[2] <= k IN IF cplx THEN ok1(t[1]) /\ ok1(t[2]) ELSE ok1(t)
VecOf(seq, n, cplx) == [i \in Idx(n) |-> Val(seq[i + 1], cplx)]
FactorsSmall(ev, cplx, k) == (\A q \in 1..Len(ev.L.nzval) : SmallTokK(ev.L.nzval[q], cplx, k)) /\ (\A q \in 1..Len(ev.U.nzval) : SmallTokK(ev.U.nzval[q], cplx, k))

(***************************************************************************)
(* ?gsisx (C15): the incomplete factorization never breaks down, its        *)
(* output is well-formed, and X is exactly the preconditioner solve defined *)
(* by the returned factors.  (With dropping disabled and no pivot replaced  *)
(* the complete-LU clauses apply as well: see GssvxVerdict.)                 *)
(***************************************************************************)
FiniteTok(t, cplx) == IF cplx THEN (Len(t[1]) = 2 \/ t[1][5] < 80000) /\ (Len(t[2]) = 2 \/ t[2][5] < 80000) ELSE (Len(t) = 2 \/ t[5] < 80000)
IluVerdict(ev) ==
  LET n == ev.n  cplx == IsCplx(ev.ty)  info == ev.info
      query == Has(ev, "work") /\ ev.work.lwork = -1
      done == info >= 0 /\ info <= n + 1 /\ ~query /\ ev.opts.Fact # 3
      hasLU == Has(ev, "L") /\ Has(ev, "U") /\ Has(ev.L, "rowind") /\ Has(ev.U, "rowind")
      wf == IF done /\ hasLU THEN WellFormed(ev.L, ev.U, n, n, TRUE, LAMBDA t : TokIsZero(t, cplx)) ELSE IF done THEN "C03.missing" ELSE "ok"
      permsok == IsPerm(ev.perm_c, n) /\ IsPerm(ev.perm_r, n)
      \* U's diagonal lives in the supernodal storage: entry (j, j) of column j
      diagTok(j) == LET e == SnodeEntry(ev.L, j, j) IN IF e[1] THEN At(ev.L.nzval, e[2]) ELSE (IF cplx THEN <<<<0, 0>>, <<0, 0>>>> ELSE <<0, 0>>)
      diagbad == wf = "ok" /\ \E j \in 0..(n - 1) : TokIsZero(diagTok(j), cplx) \/ ~FiniteTok(diagTok(j), cplx)
      \* X = the solve with the returned factors (exact when nothing was scaled and the factors lie in the exact domain)
      tr == ev.fmt = "NR"
      effN == IF tr THEN ev.opts.Trans # 0 ELSE ev.opts.Trans = 0
      \* operation the driver applies to the factored matrix (A, or A' for row storage)
      opn == IF effN THEN "N" ELSE IF cplx /\ ~tr /\ ev.opts.Trans = 2 THEN "C" ELSE "T"
      solved == done /\ Has(ev, "B0") /\ ev.nrhs > 0
      DL == DenseL(ev.L, n, n, LAMBDA t : Val(t, cplx), CZero, COne)
      DU == DenseU(ev.L, ev.U, n, LAMBDA t : Val(t, cplx), CZero)
      exact == solved /\ wf = "ok" /\ permsok /\ ev.equed = "N" /\ FactorsSmall(ev, cplx, 16) /\ (\A k \in Idx(n) : CIsPow2(DU[<<k, k>>]))
               /\ \A k \in 1..ev.nrhs : \A i \in 1..n : SmallTokK(ev.B0[k][i], cplx, 16)
      pr == [i \in Idx(n) |-> ev.perm_r[i + 1]]
      pc == [i \in Idx(n) |-> ev.perm_c[i + 1]]
      colOK(k) == (\A i \in 1..n : ValOK(ev.X1[k][i], cplx)) /\ VecOf(ev.X1[k], n, cplx) = Gstrs(opn, DL, DU, pr, pc, VecOf(ev.B0[k], n, cplx), n)
      bad == (IF ~query /\ ev.opts.Fact # 3 /\ info >= 0 /\ info <= n + 1 /\ ~permsok THEN {"C15.permutation_not_a_bijection"} ELSE {})
             \cup (IF wf # "ok" THEN {"C15." \o wf} ELSE {})
             \cup (IF done /\ hasLU /\ diagbad THEN {"C15.U_diagonal_zero_or_not_finite"} ELSE {})
             \cup (IF ev.Astruct_same # 1 THEN {"C15.row_indices_not_restored"} ELSE {})
             \cup (IF exact /\ (\E k \in 1..ev.nrhs : ~colOK(k)) THEN {"C15.X_is_not_the_preconditioner_solve"} ELSE {})
             \cup (IF solved /\ ev.X_same = 1 /\ ev.nrhs > 0 /\ n > 0 THEN {"C15.X_not_computed"} ELSE {})
  IN [bad |-> bad, arb |-> (IF solved /\ ~exact THEN {"C15.solve_numeric"} ELSE {}),
      cov |-> (IF done THEN {"C15.completed", "C15.droprule_" \o ToString(ev.opts.DropRule), "C15.replaced_" \o (IF info = 0 \/ info = n + 1 THEN "0" ELSE "some")} ELSE {})
              \cup (IF exact THEN {"C15.X_exact"} ELSE {})]

(***************************************************************************)
(* ?gssvx / ?gsisx (expert drivers): C05 (+ C02-C04 on the matrix that was  *)
(* factored, C06 reuse clauses, C07/C08 storage clauses).                    *)
(* sc = scenario context: [ref, memfail] (reference factor digests of the   *)
(* first successful run of the scenario; whether a memory failure event was *)
(* seen since the last call returned).                                      *)
(***************************************************************************)
\* ?QuerySpace: bytes held by the returned factors and needed by a factorization (32-bit indices)
MemUsageOK(ev) ==
  LET n == ev.n  dw == DWordOf(ev.ty)  iw == 4  panel == ev.tune[1]
      ilu == ev.fn = "gsisx"
      forlu == (4 * n + 3) * iw + Len(ev.L.nzval) * dw + Len(ev.L.rowind) * iw + (n + 1) * iw + Len(ev.U.nzval) * (dw + iw)
      total == forlu + (2 * panel + (IF ilu THEN 9 ELSE 4) + 3) * n * iw + (panel + 1) * n * dw
  IN /\ TokOK(ev.mem[1]) /\ TokOK(ev.mem[2])
     /\ Dy(ev.mem[1]) = <<forlu, 1>> /\ Dy(ev.mem[2]) = <<total, 1>>
\* power-of-two scalings act on the exponent of a value token: [num, ld] * 2^k = [num, ld - k]
IsPow2Tok(t) == Len(t) = 2 /\ t[1] = 1
ExpOf(t) == -t[2]
ShiftTok(t, k) == IF t[1] = 0 THEN t ELSE <<t[1], t[2] - k>>
ShiftValTok(t, k, cplx) == IF cplx THEN <<ShiftTok(t[1], k), ShiftTok(t[2], k)>> ELSE ShiftTok(t, k)
ExactTok(t, cplx) == IF cplx THEN Len(t[1]) = 2 /\ Len(t[2]) = 2 ELSE Len(t) = 2
EquedOK(q) == q \in {"N", "R", "C", "B"}
RowEqu(q) == q \in {"R", "B"}
ColEqu(q) == q \in {"C", "B"}
RealTok(t) == <<Dy(t), RZero>>
DrvI == INSTANCE SluDriver WITH N <- 0, pc <- "", o <- <<>>, hist <- <<>>, info <- 0, eq <- "N"
GssvxVerdict(ev, sc) ==
  LET n == ev.n  ty == ev.ty  cplx == IsCplx(ty)
      info == ev.info
      tr == ev.fmt = "NR"
      fact == ev.opts.Fact                      \* 0 DOFACT 1 SamePattern 2 SamePattern_SameRowPerm 3 FACTORED
      query == Has(ev, "work") /\ ev.work.lwork = -1
      q == ev.equed
      \* effective "notran" after the storage swap of the driver
      notranEff == IF tr THEN ev.opts.Trans # 0 ELSE ev.opts.Trans = 0
      aok == \A t \in 1..Len(ev.A0) : ValOK(ev.A0[t][3], cplx)
      a1ok == \A k \in 1..Len(ev.A1v) : ValOK(ev.A1v[k], cplx)
      \* exponents of the scale factors that equed selects (defined when those factors are powers of two)
      rpow == RowEqu(q) => \A i \in 1..n : IsPow2Tok(ev.R[i]) /\ ExpOf(ev.R[i]) \in -1000..1000
      cpow == ColEqu(q) => \A i \in 1..n : IsPow2Tok(ev.C[i]) /\ ExpOf(ev.C[i]) \in -1000..1000
      rcok == rpow /\ cpow
      eR(i) == IF RowEqu(q) THEN ExpOf(ev.R[i + 1]) ELSE 0
      eC(j) == IF ColEqu(q) THEN ExpOf(ev.C[j + 1]) ELSE 0
      rowOf(t) == IF tr THEN ev.A0[t][2] ELSE ev.A0[t][1]       \* position in AA = A (NC) or A' (NR)
      colOf(t) == IF tr THEN ev.A0[t][1] ELSE ev.A0[t][2]
      needRC == RowEqu(q) \/ ColEqu(q)
      a0exact == \A t \in 1..Len(ev.A0) : ExactTok(ev.A0[t][3], cplx)
      \* --- A after the call: diag(R) AA diag(C) restricted to equed
      ascaled == IF ~needRC THEN \A t \in 1..Len(ev.A0) : ev.A1v[t] = ev.A0[t][3]
                 ELSE (a0exact /\ rcok) => \A t \in 1..Len(ev.A0) : ev.A1v[t] = ShiftValTok(ev.A0[t][3], eR(rowOf(t)) + eC(colOf(t)), cplx)
      ascaledChecked == ~needRC \/ (a0exact /\ rcok)
      \* --- B after the call
      solved == (info = 0 \/ info = n + 1 \/ (ev.fn = "gsisx" /\ info > 0 /\ info <= n)) /\ ~query /\ Has(ev, "B0") /\ ev.nrhs > 0
      bexp(i) == IF notranEff /\ RowEqu(q) THEN eR(i) ELSE IF ~notranEff /\ ColEqu(q) THEN eC(i) ELSE 0
      bneeds == (notranEff /\ RowEqu(q)) \/ (~notranEff /\ ColEqu(q))
      bok == \A k \in 1..ev.nrhs : \A i \in 1..n : ExactTok(ev.B0[k][i], cplx)
      bscaled == IF ~(solved /\ bneeds) THEN (Has(ev, "B0") => ev.B_same = 1)
                 ELSE (bok /\ rcok) => \A k \in 1..ev.nrhs : \A i \in 1..n :
                         ev.B1[k][i] = ShiftValTok(ev.B0[k][i], bexp(i - 1), cplx)
      \* --- factorization clauses on the matrix that was factored (the values of A after the call)
      Fent == [t \in 1..Len(ev.A0) |-> <<ev.A0[t][1], ev.A0[t][2], ev.A1v[t]>>]
      F == IF a1ok THEN DenseOf(Fent, n, n, cplx, tr) ELSE <<>>
      factored == fact # 3 /\ ~query /\ info >= 0
      isilu == ev.fn = "gsisx"
      iluExact == isilu /\ ev.opts.DropRule = 0 /\ info = 0       \* dropping disabled, no pivot replaced
      iv == IF isilu THEN IluVerdict(ev) ELSE [bad |-> {}, arb |-> {}, cov |-> {}]
      fv == IF factored /\ (~isilu \/ iluExact) THEN FactorVerdict2(ev, F, PatternOf(ev.A0, tr), n, n, Dy(UTok(ev)), UOK(ev), fact = 2 \/ isilu, FALSE, isilu)
            ELSE [bad |-> {}, arb |-> {}, cov |-> {}, d2 |-> FALSE]
      \* --- solution: op(A0) X = B0 for the caller's original A and B
      opname == IF ev.opts.Trans = 0 THEN "N" ELSE IF ev.opts.Trans = 1 \/ ~cplx THEN "T" ELSE "C"
      \* with Fact = FACTORED the caller passes the equilibrated matrix together with equed, R, C: the system
      \* solved is that of the matrix before scaling, diag(R)^-1 AA diag(C)^-1 (AA = A or A' for row storage)
      unscTok(t) == ShiftValTok(ev.A0[t][3], -(eR(rowOf(t)) + eC(colOf(t))), cplx)
      unscOK == a0exact /\ rcok /\ \A t \in 1..Len(ev.A0) : ValOK(unscTok(t), cplx)
      A == IF fact = 3 /\ needRC
           THEN (IF unscOK THEN DenseOf([t \in 1..Len(ev.A0) |-> <<ev.A0[t][1], ev.A0[t][2], unscTok(t)>>], n, n, cplx, FALSE) ELSE <<>>)
           ELSE DenseOf(ev.A0, n, n, cplx, FALSE)
      opA == [ij \in Rows(n) \X Rows(n) |-> IF opname = "N" THEN A[ij] ELSE IF opname = "T" THEN A[<<ij[2], ij[1]>>] ELSE CConj(A[<<ij[2], ij[1]>>])]
      asmall == IF fact = 3 /\ needRC THEN unscOK /\ (\A t \in 1..Len(ev.A0) : ATokSmall(unscTok(t), cplx))
                ELSE \A t \in 1..Len(ev.A0) : ATokSmall(ev.A0[t][3], cplx)
      sv == IF solved /\ (ev.fn = "gssvx" \/ iluExact) /\ ~Light THEN SolveVerdict(ev, opA, aok /\ asmall, n, ev.X1, cplx, "C05.residual")
            ELSE [arb |-> {}, cov |-> {}, nexact |-> 0, allexact |-> FALSE]
      condOn == ev.opts.Cond = 1 /\ ~query /\ Has(ev, "rcond_exp")
      epsExp == IF ty \in {"d", "z"} THEN -53 ELSE -24          \* dmach("E") = 2^-53, smach("E") = 2^-24
      rcNaN == Len(ev.rcond) = 5 /\ ev.rcond[5] = 99999
      refOn == solved /\ ev.fn = "gssvx" /\ ev.opts.IterRefine # 0
      xfinite == Has(ev, "X1") /\ \A k \in 1..Len(ev.X1) : \A i \in 1..Len(ev.X1[k]) : FiniteTok(ev.X1[k][i], cplx)
      refOff == solved /\ ev.fn = "gssvx" /\ ev.opts.IterRefine = 0
      \* --- storage clauses (C07 / C08)
      haswork == Has(ev, "work")
      digs == IF Has(ev, "L") /\ Has(ev.L, "dig") /\ Has(ev, "U") /\ Has(ev.U, "dig") THEN <<ev.L.dig, ev.L.digs, ev.U.dig, ev.U.digs, ev.perm_r, ev.perm_c, ev.L.nnz, ev.U.nnz, info>> ELSE <<>>
      \* runs whose factors are compared across ways of obtaining storage: success, and for the incomplete factorization also
      \* 0 < info <= n (the number of replaced pivots is part of the answer)
      cmpInfo == info = 0 \/ (isilu /\ info > 0 /\ info <= n)
      etreeDue == fact = 0 /\ ~query /\ info >= 0 /\ info <= n + 1 /\ n <= 16 /\ Has(ev, "etree") /\ IsPermSeq(ev.perm_c, n)
      etreeOK == /\ \A j \in 1..n : ev.etree[j] \in 0..n
                 /\ [j \in Cols(n) |-> ev.etree[j + 1]] = ColEtreeDef(PatternOf(ev.A0, tr), n, n, SeqToFn(ev.perm_c, n))
      \* ---- the phases the driver performed (hooks P:Phase), judged by the safety layer of SluDriver
      drvo == [Fact |-> fact, Equil |-> ev.opts.Equil = 1, Trans |-> ev.opts.Trans, nr |-> tr, nrhs |-> IF Has(ev, "B0") /\ ev.nrhs > 0 THEN 1 ELSE 0,
               Cond |-> ev.opts.Cond = 1, Growth |-> ev.opts.PivotGrowth = 1, Refine |-> (ev.fn = "gssvx" /\ ev.opts.IterRefine # 0),
               lw |-> IF query THEN "query" ELSE "sys", ilu |-> ev.fn = "gsisx", mc64 |-> (ev.fn = "gsisx" /\ ev.opts.RowPerm = 1)]
      phDue == Has(ev, "phases") /\ ev.phases # <<>> /\ EquedOK(q)
      drvbad == IF phDue THEN DrvI!SafeClauses(drvo, info, n, q, ev.phases) ELSE {}
      bad == fv.bad \cup iv.bad \cup drvbad
        \cup (IF ~EquedOK(q) THEN {"C05.equed_letter"} ELSE {})
        \cup (IF EquedOK(q) /\ ~query /\ info >= 0 /\ fact # 3 /\ ~ascaled THEN {"C05.A_scaled_as_equed"} ELSE {})
        \cup (IF EquedOK(q) /\ ~query /\ info >= 0 /\ ~bscaled THEN {"C05.B_scaled_as_documented"} ELSE {})
        \cup (IF fact = 0 /\ ev.opts.Equil = 0 /\ ~query /\ info >= 0 /\ q # "N" THEN {"C05.equed_without_equil"} ELSE {})
        \cup (IF ev.Astruct_same # 1 THEN {"C05.A_structure_modified"} ELSE {})
        \cup (IF Has(ev, "padB_same") /\ (ev.padB_same # 1 \/ ev.padX_same # 1) THEN {"C05.padding_written"} ELSE {})
        \cup (IF ev.fn = "gssvx" /\ info > 0 /\ info <= n /\ Has(ev, "X_same") /\ ev.X_same # 1 THEN {"C04.X_written_on_singular"} ELSE {})
        \cup (IF ev.fn = "gssvx" /\ info > 0 /\ info <= n /\ Has(ev, "B_same") /\ ev.B_same # 1 THEN {"C04.B_modified"} ELSE {})
        \cup (IF fact = 3 /\ info >= 0 /\ ~(ev.same.Lval = 1 /\ ev.same.Uval = 1 /\ ev.same.Lstr = 1 /\ ev.same.Ustr = 1 /\ ev.same.perm_c = 1 /\ ev.same.perm_r = 1)
              THEN {"C06.resolve_altered_factors"} ELSE {})
        \* with supplied factors equed, R, C (and the tree) are inputs: a re-solve hands them back as it received them, otherwise the
        \* NEXT re-solve works with another system than the factors belong to
        \cup (IF fact = 3 /\ info >= 0 /\ ~(ev.same.equed = 1 /\ ev.same.R = 1 /\ ev.same.C = 1 /\ ev.same.etree = 1)
              THEN {"C06.resolve_altered_scaling_state", "C15.resolve_altered_scaling_state"} ELSE {})
        \cup (IF fact \in {1, 2} /\ info >= 0 /\ ev.same.perm_c # 1 THEN {"C06.column_order_not_reused"} ELSE {})
        \* the elimination tree is part of what a later SamePattern call reuses: with Fact # DOFACT it is an input and stays as it was;
        \* after DOFACT it is the column elimination tree of A under the returned column order (C10), whatever ?gstrf did with it meanwhile
        \cup (IF fact # 0 /\ ~query /\ info >= 0 /\ ev.same.etree # 1 THEN {"C06.etree_not_reused", "C10.driver_etree_changed_without_DOFACT"} ELSE {})
        \cup (IF etreeDue /\ ~etreeOK THEN {"C10.driver_etree_is_not_the_column_etree", "C06.etree_returned_is_not_the_tree_of_perm_c"} ELSE {})
        \cup (IF fact = 3 /\ info >= 0 /\ (\E t \in 1..Len(ev.A0) : ev.A1v[t] # ev.A0[t][3]) THEN {"C06.resolve_modified_A"} ELSE {})
        \cup (IF haswork /\ ev.work.guards_ok # 1 THEN {"C08.guard_overrun"} ELSE {})
        \cup (IF sc.memfail /\ ~(info > n) THEN {"C08.shortage_not_reported"} ELSE {})
        \cup (IF query /\ ~(ev.same.perm_c = 1 /\ ev.same.perm_r = 1 /\ ev.same.etree = 1 /\ ev.same.R = 1 /\ ev.same.C = 1 /\ ev.same.equed = 1
                           /\ ev.same.Lval = 1 /\ ev.same.Uval = 1 /\ (\A t \in 1..Len(ev.A0) : ev.A1v[t] = ev.A0[t][3])
                           /\ (Has(ev, "B_same") => ev.B_same = 1 /\ ev.X_same = 1))
              THEN {"C08.query_not_pure"} ELSE {})
        \cup (IF query /\ ~(info > n) THEN {"C08.query_info"} ELSE {})
        \cup (IF sc.ref # <<>> /\ (sc.refd2 \/ BitwiseAll) /\ factored /\ cmpInfo /\ digs # <<>> /\ digs # sc.ref THEN {"C07.storage_changed_result"} ELSE {})
        \* structure and permutations never depend on rounding: compared in every case
        \cup (IF sc.ref # <<>> /\ factored /\ cmpInfo /\ digs # <<>> /\ ~(sc.refd2 \/ BitwiseAll)
                 /\ <<digs[2], digs[4], digs[5], digs[6], digs[7], digs[8], digs[9]>> # <<sc.ref[2], sc.ref[4], sc.ref[5], sc.ref[6], sc.ref[7], sc.ref[8], sc.ref[9]>>
              THEN {"C07.storage_changed_structure"} ELSE {})
        \cup (IF factored /\ info = 0 /\ sc.memev /\ ev.expansions # sc.nexp THEN {"C07.expansions_count"} ELSE {})
        \cup (IF factored /\ info = 0 /\ Has(ev, "L") /\ Has(ev.L, "rowind") /\ ev.itsz = 4 /\ ~MemUsageOK(ev) THEN {"C07.mem_usage"} ELSE {})
        \cup (IF info < 0 THEN {"C18.unexpected_negative_info"} ELSE {})
        \cup LedgerCls(ev, OutcomeCls(ev))
        \* ---- C12: warning info = n+1 exactly when the reported rcond is below machine epsilon; rcond never exceeds one
        \cup (IF condOn /\ (info = 0 \/ info = n + 1) /\ rcNaN THEN {"C12.rcond_not_a_number"} ELSE {})
        \cup (IF condOn /\ (info = 0 \/ info = n + 1) /\ ~rcNaN /\ ((info = n + 1) # (ev.rcond_exp < epsExp)) THEN {"C12.warning_rule"} ELSE {})
        \cup (IF ~condOn /\ info = n + 1 THEN {"C12.warning_without_estimate"} ELSE {})
        \* (coarse form: the estimate is below 2; "at most one up to rounding" is evaluated by the side evaluator)
        \cup (IF condOn /\ (info = 0 \/ info = n + 1) /\ ev.rcond_exp >= 1 THEN {"C12.rcond_exceeds_one"} ELSE {})
        \* ---- C13: without refinement ferr = berr = 1 exactly; with refinement at most five steps, ferr finite and
        \*      non-negative, and berr exactly zero when the returned X is the exact solution (exact domain, double)
        \cup (IF refOff /\ (\E k \in 1..ev.nrhs : ev.ferr[k] # <<1, 0>> \/ ev.berr[k] # <<1, 0>>) THEN {"C13.not_one_without_refinement"} ELSE {})
        \cup (IF refOn /\ ev.steps > 5 THEN {"C13.more_than_five_steps"} ELSE {})
        \* (finiteness is demanded when the driver did not warn that the matrix is singular to working precision)
        \cup (IF refOn /\ condOn /\ info = 0 /\ ~rcNaN /\ (\E k \in 1..ev.nrhs : ~FiniteNonNeg(ev.ferr[k]) \/ ~FiniteNonNeg(ev.berr[k])) THEN {"C13.error_bounds_not_finite"} ELSE {})
        \* (a returned X that is not finite has no backward error: that is a matter of C01 / C05 and of the type's range)
        \* (FERR comes from the same estimator as rcond: when rcond is not a number -- finding 9.16 -- FERR is not either)
        \cup (IF refOn /\ xfinite /\ (\E k \in 1..ev.nrhs : (~(condOn /\ rcNaN) /\ Len(ev.ferr[k]) = 5 /\ ev.ferr[k][5] = 99999) \/ (Len(ev.berr[k]) = 5 /\ ev.berr[k][5] = 99999) \/ ev.ferr[k][1] < 0 \/ ev.berr[k][1] < 0)
              THEN {"C13.error_bounds_nan_or_negative"} ELSE {})
        \cup (IF refOn /\ ty \in {"d", "z"} /\ fact # 3 /\ fv.d2 /\ sv.allexact /\ (\E k \in 1..ev.nrhs : ev.berr[k] # <<0, 0>>)
              THEN {"C13.berr_nonzero_for_exact_solution"} ELSE {})
      numarb == IF (condOn \/ (ev.opts.PivotGrowth = 1 /\ ~query) \/ refOn \/ (info > 0 /\ info <= n)) /\ ~Light THEN {"C12.numeric", "C13.numeric"} ELSE {}
      cov == fv.cov \cup sv.cov
        \cup (IF condOn /\ (info = 0 \/ info = n + 1) THEN {"C12.rcond_reported", IF info = n + 1 THEN "C12.warning_raised" ELSE "C12.no_warning"} ELSE {})
        \cup (IF refOn /\ ty \in {"d", "z"} /\ fact # 3 /\ fv.d2 /\ sv.allexact THEN {"C13.berr_zero_exact"} ELSE {})
        \cup (IF refOff THEN {"C13.no_refinement"} ELSE {})
        \cup (IF EquedOK(q) /\ needRC /\ ascaledChecked THEN {"C05.A_scaling_exact"} ELSE {})
        \cup (IF solved /\ bneeds /\ bok /\ rcok THEN {"C05.B_scaling_exact"} ELSE {})
        \cup (IF sc.ref # <<>> /\ (sc.refd2 \/ BitwiseAll) /\ factored /\ cmpInfo /\ digs # <<>> THEN {"C07.compared_bitwise"} \cup (IF info > 0 THEN {"C07.compared_with_replaced_pivots"} ELSE {}) ELSE {})
        \cup (IF sc.ref # <<>> /\ ~(sc.refd2 \/ BitwiseAll) /\ factored /\ cmpInfo /\ digs # <<>> THEN {"C07.compared_structure"} \cup (IF info > 0 THEN {"C07.compared_with_replaced_pivots"} ELSE {}) ELSE {})
        \cup (IF haswork /\ ev.work.lwork > 0 THEN {"C08.user_workspace_run"} ELSE {})
        \cup (IF factored /\ info = 0 /\ sc.memev THEN {"C07.expansions_" \o (IF sc.nexp = 0 THEN "0" ELSE IF sc.nexp < 3 THEN "1-2" ELSE "3+")} ELSE {})
        \cup (IF query THEN {"C08.query_checked"} ELSE {})
        \cup (IF sc.memfail THEN {"C08.shortage_seen"} ELSE {})
        \cup (IF q # "N" THEN {"C05.equed_" \o q} ELSE {})
        \cup (IF etreeDue THEN {"C10.driver_etree_checked"} ELSE {})
        \cup (IF phDue THEN {"C05.driver_phases_checked"} \cup (IF isilu THEN {"C15.driver_phases_checked"} ELSE {}) ELSE {})
        \cup {"C06.fact_" \o (CASE fact = 0 -> "DOFACT" [] fact = 1 -> "SamePattern" [] fact = 2 -> "SameRowPerm" [] OTHER -> "FACTORED")}
  IN [bad |-> bad, arb |-> fv.arb \cup sv.arb \cup numarb \cup iv.arb, cov |-> cov \cup iv.cov, digs |-> IF factored /\ cmpInfo THEN digs ELSE <<>>, d2 |-> fv.d2]

(***************************************************************************)
(* ?gsequ + ?laqgs on the log domain DL (C11): every logged quantity is     *)
(* compared, as an exponent, with SluEquil's result for the same matrix.    *)
(***************************************************************************)
\* magnitude exponent of a DL token (real: +-2^e; complex: one component zero, or both of equal magnitude)
Pow2Tok(t) == Len(t) = 2 /\ t[1] \in {1, -1} /\ t[2] \in -1100..1100
ZeroTok(t) == Len(t) = 2 /\ t[1] = 0
DLTok(t, cplx) == IF ~cplx THEN Pow2Tok(t) \/ ZeroTok(t)
                  ELSE \/ (ZeroTok(t[1]) /\ (Pow2Tok(t[2]) \/ ZeroTok(t[2])))
                       \/ (ZeroTok(t[2]) /\ Pow2Tok(t[1]))
                       \/ (Pow2Tok(t[1]) /\ Pow2Tok(t[2]) /\ t[1][2] = t[2][2])
MagExp(t, cplx) == IF ~cplx THEN (IF ZeroTok(t) THEN Z ELSE -t[2])
                   ELSE IF ZeroTok(t[1]) THEN (IF ZeroTok(t[2]) THEN Z ELSE -t[2][2])
                   ELSE IF ZeroTok(t[2]) THEN -t[1][2] ELSE -t[1][2] + 1
\* expected token of a real quantity with exponent e (Z = zero)
ExpTokIs(t, e) == IF e = Z THEN ZeroTok(t) ELSE IF e = INF THEN (Len(t) = 5 /\ t[5] = 88888) ELSE (Len(t) = 2 /\ t[1] = 1 /\ -t[2] = e)
\* a stored component c0 (token) scaled by exponent shift `sh` under IEEE semantics of format F
CompScaledIs(t1, t0, sh, F) ==
  IF ZeroTok(t0) THEN ZeroTok(t1) \/ (Len(t1) = 5 /\ t1[5] = 99999)
  ELSE LET s == -t0[2] + sh IN
       IF s < F.dmin THEN ZeroTok(t1) ELSE IF s > F.emax THEN (Len(t1) = 5 /\ t1[5] = 88888) ELSE (Len(t1) = 2 /\ t1[1] = t0[1] /\ -t1[2] = s)
EquVerdict(ev) ==
  LET m == ev.m  n == ev.n  cplx == IsCplx(ev.ty)  F == FmtOf(ev.ty)
      dl == \A t \in 1..Len(ev.A0) : DLTok(ev.A0[t][3], cplx)
      Aexp == [ij \in Rows(m) \X Rows(n) |->
                 LET S == {t \in 1..Len(ev.A0) : ev.A0[t][1] = ij[1] /\ ev.A0[t][2] = ij[2]} IN
                 IF S = {} THEN Z ELSE MagExp(ev.A0[CHOOSE t \in S : TRUE][3], cplx)]
      g == GsEqu(Aexp, m, n, F)
      q == Decide(g, F)
      shift(t) == (IF q \in {"R", "B"} THEN g.R[ev.A0[t][1]] ELSE 0) + (IF q \in {"C", "B"} THEN g.C[ev.A0[t][2]] ELSE 0)
      entryOK(t) == IF cplx THEN CompScaledIs(ev.A1v[t][1], ev.A0[t][3][1], shift(t), F) /\ CompScaledIs(ev.A1v[t][2], ev.A0[t][3][2], shift(t), F)
                    ELSE CompScaledIs(ev.A1v[t], ev.A0[t][3], shift(t), F)
      bad == IF ~dl THEN {} ELSE
        (IF ev.info # g.info THEN {"C11.info"} ELSE {})
        \cup (IF ev.info = g.info /\ ~ExpTokIs(ev.amax, g.amax) THEN {"C11.amax"} ELSE {})
        \cup (IF ev.info = 0 /\ g.info = 0 /\ (\E i \in 1..m : ~ExpTokIs(ev.R[i], g.R[i - 1])) THEN {"C11.row_factors"} ELSE {})
        \cup (IF ev.info = 0 /\ g.info = 0 /\ (\E j \in 1..n : ~ExpTokIs(ev.C[j], g.C[j - 1])) THEN {"C11.col_factors"} ELSE {})
        \cup (IF ev.info = 0 /\ g.info = 0 /\ ~(ExpTokIs(ev.rowcnd, g.rowcnd) /\ ExpTokIs(ev.colcnd, g.colcnd)) THEN {"C11.ratios"} ELSE {})
        \cup (IF ev.info = 0 /\ g.info = 0 /\ ev.equed # q THEN {"C11.threshold_rule"} ELSE {})
        \* a wrong entry whose two selected factors have a product beyond the overflow threshold is reported under
        \* its own name (the factors are multiplied with each other first: known finding, DESIGN 9.13)
        \cup (IF ev.info = 0 /\ g.info = 0 /\ ev.equed = q /\ (\E t \in 1..Len(ev.A0) : ~entryOK(t) /\ ~(q = "B" /\ g.R[ev.A0[t][1]] + g.C[ev.A0[t][2]] > F.emax))
              THEN {"C11.scaled_entries"} ELSE {})
        \cup (IF ev.info = 0 /\ g.info = 0 /\ ev.equed = q /\ (\E t \in 1..Len(ev.A0) : ~entryOK(t) /\ q = "B" /\ g.R[ev.A0[t][1]] + g.C[ev.A0[t][2]] > F.emax)
              THEN {"C11.scaled_entries_factor_product_overflows"} ELSE {})
        \cup (IF ev.info # 0 /\ (\E t \in 1..Len(ev.A0) : ev.A1v[t] # ev.A0[t][3]) THEN {"C11.A_modified_without_scaling"} ELSE {})
        \cup (IF ev.Astruct_same # 1 THEN {"C11.structure_modified"} ELSE {})
  IN [bad |-> bad \cup LedgerCls(ev, "_equ"), arb |-> (IF dl THEN {} ELSE {"C11.float_slice"}),
      cov |-> (IF dl THEN {"C11.exact_DL", "C11.equed_" \o (IF g.info = 0 THEN q ELSE "info")} ELSE {})]

(***************************************************************************)
(* ?lacon2 driven with an explicit operator (C12): the recorded rounds of   *)
(* the reverse-communication loop are replayed through SluCond, call by     *)
(* call (control state always; estimates where the arithmetic is exact).    *)
(***************************************************************************)
RECURSIVE LaconAfter(_, _, _)
LaconAfter(B, n, k) == IF k = 1 THEN LaconInit(n) ELSE LaconStep(Apply(LaconAfter(B, n, k - 1), B, n), n)
LaconVerdict(ev) ==
  LET n == ev.n
      ok == ~IsCplx(ev.ty) /\ n \in {1, 2, 4, 8} /\ \A t \in 1..Len(ev.A0) : TokOK(ev.A0[t][3]) /\ Abs(Dy(ev.A0[t][3])[1]) <= 8 /\ Dy(ev.A0[t][3])[2] <= 4
      B == [ij \in Ix(n) \X Ix(n) |->
              LET S == {t \in 1..Len(ev.A0) : ev.A0[t][1] = ij[1] - 1 /\ ev.A0[t][2] = ij[2] - 1} IN
              IF S = {} THEN RZero ELSE Dy(ev.A0[CHOOSE t \in S : TRUE][3])]
      K == Len(ev.rounds)
      st(k) == LaconAfter(B, n, k)
      last == st(K)
      roundBad(k) == LET s == st(k)  r == ev.rounds[k] IN
                       \/ r.kase # s.kase \/ r.jump # s.jump
                       \/ (s.jump \in {3, 4, 5} /\ s.kase # 0 /\ r.j # s.j - 1)
                       \/ (s.jump \in {3, 4} /\ r.iter # s.iter)
                       \/ (s.jump \in {2, 3, 4} /\ (~TokOK(r.est) \/ Dy(r.est) # s.est))
                       \/ (s.jump = 5 /\ s.kase = 1 /\ (~TokOK(r.est) \/ Dy(r.est) # s.est))
      bad == IF ~ok THEN {} ELSE
             (IF K > 12 \/ last.kase # 0 THEN {"C12.estimator_rounds"}
              ELSE (IF \E k \in 1..K : roundBad(k) THEN {"C12.estimator_step"} ELSE {})
                   \* the final estimate is exact when the last stage did not replace it (its candidate involves a
                   \* division by 3n, inexact in floating point)
                   \cup (IF K >= 2 /\ st(K - 1).jump = 5 /\ last.est = st(K - 1).est /\ (~TokOK(ev.est) \/ Dy(ev.est) # last.est) THEN {"C12.estimate_value"} ELSE {})
                   \cup (IF n = 1 /\ (~TokOK(ev.est) \/ Dy(ev.est) # last.est) THEN {"C12.estimate_value"} ELSE {}))
  IN [bad |-> bad, arb |-> (IF ok THEN {} ELSE {"C12.estimator_float"}), cov |-> (IF ok THEN {"C12.estimator_replayed"} ELSE {})]

(***************************************************************************)
(* Orderings and elimination tree (C10): get_perm_c + sp_preorder, getata,  *)
(* at_plus_a.  sc.ordref = column order returned for this pattern by an     *)
(* earlier call of the same scenario with the same method (other values).   *)
(***************************************************************************)
OrderVerdict(ev, sc) ==
  LET m == ev.m  n == ev.n
      pat == PatternOf(ev.A0, FALSE)
      dofact == ev.fact = 0
      big == n > 24            \* orders beyond the exhaustive range: the tree is not recomputed from its definition (cubic), the
                               \* bijection, parent-above-child, postorder and view clauses still are
      my == ev.method = 8
      sym == ev.sym = 1
      midok == IsPermSeq(ev.perm_c_mid, n)
      finok == IsPermSeq(ev.perm_c, n)
      given == SeqToFn(ev.perm_c_mid, n)
      final == SeqToFn(ev.perm_c, n)
      et == [j \in Cols(n) |-> ev.etree[j + 1]]
      etok == \A j \in Cols(n) : ev.etree[j + 1] \in 0..n
      bad == IF ~dofact THEN
               \* ordering and tree are inputs: both untouched, the view lists A's columns under the given order
               (IF ev.perm_c # ev.perm_c_in THEN {"C10.perm_c_changed_without_DOFACT"} ELSE {})
               \cup (IF ev.etree # ev.etree_in THEN {"C10.etree_changed_without_DOFACT"} ELSE {})
               \cup (IF finok /\ (\E i \in Cols(n) : ev.colbeg[final[i] + 1] # ev.colptr[i + 1] \/ ev.colend[final[i] + 1] # ev.colptr[i + 2]) THEN {"C10.permuted_view"} ELSE {})
             ELSE
               (IF ~midok THEN {"C10.ordering_not_a_bijection"} ELSE {})
               \cup (IF ~finok THEN {"C10.perm_c_not_a_bijection"} ELSE {})
               \cup (IF my /\ ev.perm_c_mid # ev.perm_c_in THEN {"C10.my_permc_overwritten"} ELSE {})
               \cup (IF ~big /\ midok /\ finok /\ ~RespectsUpToPostorder(pat, m, n, given, final, sym) THEN {"C10.ordering_not_respected_up_to_postorder"} ELSE {})
               \cup (IF ~big /\ finok /\ (~etok \/ et # ColEtreeDef(pat, m, n, final)) THEN {"C10.etree_is_not_the_column_etree"} ELSE {})
               \cup (IF big /\ finok /\ ~etok THEN {"C10.etree_is_not_the_column_etree"} ELSE {})
               \cup (IF finok /\ etok /\ ~ParentAbove(et, n) THEN {"C10.parent_not_above_child"} ELSE {})
               \cup (IF finok /\ etok /\ ~sym /\ ParentAbove(et, n) /\ ~Postordered(et, n) THEN {"C10.not_postordered"} ELSE {})
               \cup (IF finok /\ (\E i \in Cols(n) : ev.colbeg[final[i] + 1] # ev.colptr[i + 1] \/ ev.colend[final[i] + 1] # ev.colptr[i + 2]) THEN {"C10.permuted_view"} ELSE {})
               \cup (IF sc.ordref # <<>> /\ sc.ordref[1] = ev.method /\ sc.ordref[2] = ev.sym /\ sc.ordref[3] # ev.perm_c THEN {"C10.ordering_depends_on_values"} ELSE {})
      bad2 == (IF ev.AC_shares_arrays # 1 \/ ev.AC_nnz # Len(ev.A0) \/ ev.AC_dims # <<m, n>> THEN {"C10.permuted_view_header"} ELSE {})
  IN [bad |-> bad \cup bad2 \cup LedgerCls(ev, "_order"), arb |-> {},
      cov |-> {"C10.order_method_" \o ToString(ev.method)} \cup (IF sc.ordref # <<>> /\ sc.ordref[1] = ev.method THEN {"C10.pattern_only_checked"} ELSE {})
              \cup (IF sym THEN {"C10.symmetric_mode"} ELSE {}) \cup (IF ~dofact THEN {"C10.reuse_mode"} ELSE {}),
      ord |-> <<ev.method, ev.sym, ev.perm_c>>]
StructVerdict(ev) ==
  LET m == ev.m  n == ev.n
      pat == PatternOf(ev.A0, FALSE)
      want == IF ev.fn = "ata" THEN StructATA(pat, m, n) ELSE StructAplusAT(pat, n)
      shape == Has(ev, "b_colptr") /\ Len(ev.b_colptr) = n + 1 /\ ev.b_colptr[1] = 0 /\ ev.b_colptr[n + 1] = ev.bnz /\ Len(ev.b_rowind) = ev.bnz
               /\ \A j \in 1..n : ev.b_colptr[j] <= ev.b_colptr[j + 1]
      colset(j) == {ev.b_rowind[q + 1] : q \in ev.b_colptr[j + 1]..(ev.b_colptr[j + 2] - 1)}
      bad == IF ev.fn = "aplusat" /\ m # n THEN {}
             ELSE IF ~shape THEN {"C10.structure_arrays"}
             ELSE (IF \E j \in Cols(n) : colset(j) # {i \in Cols(n) : <<i, j>> \in want} THEN {"C10.structure_differs_from_definition"} ELSE {})
                  \cup (IF \E j \in Cols(n) : Cardinality(colset(j)) # ev.b_colptr[j + 2] - ev.b_colptr[j + 1] THEN {"C10.structure_duplicates"} ELSE {})
  IN [bad |-> bad \cup LedgerCls(ev, "_struct"), arb |-> {}, cov |-> {"C10.structure_" \o ev.fn}]

(***************************************************************************)
(* Kernels (C14): sp_?trsv, sp_?gemv, sp_?gemm, ?gstrs against SluSolve on  *)
(* the dense abstraction of the recorded factors / matrix.                   *)
(***************************************************************************)
TrsvVerdict(ev) ==
  LET n == ev.n  cplx == IsCplx(ev.ty)
      up == UpFlag(ev.uplo)  tr == UpFlag(ev.trans)  dg == UpFlag(ev.diag)
      documented == up \in {"L", "U"} /\ tr \in {"N", "T", "C"} /\ dg \in {"U", "N"}
      wf == WellFormed(ev.L, ev.U, n, n, FALSE, LAMBDA t : TokIsZero(t, cplx)) = "ok"
      DL == DenseL(ev.L, n, n, LAMBDA t : Val(t, cplx), CZero, COne)
      DU == DenseU(ev.L, ev.U, n, LAMBDA t : Val(t, cplx), CZero)
      unit == dg = "U"
      exact == wf /\ FactorsSmall(ev, cplx, 16) /\ (\A i \in 1..n : SmallTokK(ev.x0[i], cplx, 16))
               /\ ((up = "U" /\ ~unit) => \A k \in Idx(n) : CIsPow2(DU[<<k, k>>]))
      want == Trsv(up, IF cplx THEN tr ELSE (IF tr = "C" THEN "T" ELSE tr), unit, DL, DU, VecOf(ev.x0, n, cplx), n)
      got == \A i \in 1..n : ValOK(ev.x1[i], cplx)
      bad == (IF documented /\ ev.info # 0 THEN {"C14.documented_flag_rejected"} ELSE {})
             \cup (IF documented /\ ev.info = 0 /\ exact /\ (~got \/ VecOf(ev.x1, n, cplx) # want)
                   THEN {IF up = "U" /\ unit THEN "C14.trsv_unit_upper_ignores_diag" ELSE "C14.trsv_result"} ELSE {})
             \cup (IF ev.factors_same # 1 THEN {"C14.factors_modified"} ELSE {})
             \cup (IF ev.outside_same # 1 THEN {"C14.wrote_outside_x"} ELSE {})
             \cup (IF ~documented /\ ev.info = 0 THEN {"C14.undocumented_flag_accepted"} ELSE {})
  IN [bad |-> bad \cup LedgerCls(ev, "_trsv"), arb |-> {}, cov |-> (IF documented /\ ev.info = 0 /\ exact THEN {"C14.trsv_exact_" \o up \o tr \o dg} ELSE {"C14.trsv_other"})]
GemvVerdict(ev) ==
  LET m == ev.m  n == ev.n  cplx == IsCplx(ev.ty)
      tr == UpFlag(ev.trans)
      documented == tr \in {"N", "T", "C"}
      A == DenseOf(ev.A0, m, n, cplx, FALSE)
      lenx == IF tr = "N" THEN n ELSE m
      leny == IF tr = "N" THEN m ELSE n
      betazero == TokIsZero(ev.beta, cplx)
      exact == documented /\ (\A t \in 1..Len(ev.A0) : SmallTokK(ev.A0[t][3], cplx, 64)) /\ Len(ev.x) = lenx /\ Len(ev.y0) = leny
               /\ (\A i \in 1..lenx : SmallTokK(ev.x[i], cplx, 64)) /\ (betazero \/ \A i \in 1..leny : SmallTokK(ev.y0[i], cplx, 64))
               /\ SmallTokK(ev.alpha, cplx, 4) /\ SmallTokK(ev.beta, cplx, 4)
      y0 == [i \in Idx(leny) |-> IF betazero THEN CZero ELSE Val(ev.y0[i + 1], cplx)]
      want == Gemv(IF cplx THEN tr ELSE (IF tr = "C" THEN "T" ELSE tr), Val(ev.alpha, cplx), A, m, n, VecOf(ev.x, lenx, cplx), Val(ev.beta, cplx), y0)
      got == Len(ev.y1) = leny /\ \A i \in 1..leny : ValOK(ev.y1[i], cplx)
      bad == (IF exact /\ (~got \/ VecOf(ev.y1, leny, cplx) # want) THEN {"C14.gemv_result"} ELSE {})
             \cup (IF ev.A_same # 1 \/ ev.x_same # 1 THEN {"C14.input_modified"} ELSE {})
             \cup (IF ev.outside_same # 1 THEN {"C14.wrote_outside_y"} ELSE {})
  IN [bad |-> bad \cup LedgerCls(ev, "_gemv"), arb |-> {}, cov |-> (IF exact THEN {"C14.gemv_exact_" \o tr} ELSE {"C14.gemv_other"})]
GemmVerdict(ev) ==
  LET m == ev.m  n == ev.n  cplx == IsCplx(ev.ty)
      tr == UpFlag(ev.trans)
      A == DenseOf(ev.A0, m, n, cplx, FALSE)
      rowsB == IF tr = "N" THEN n ELSE m
      rowsC == IF tr = "N" THEN m ELSE n
      betazero == TokIsZero(ev.beta, cplx)
      exact == tr \in {"N", "T", "C"} /\ (\A t \in 1..Len(ev.A0) : SmallTokK(ev.A0[t][3], cplx, 64))
               /\ (\A i \in 1..Len(ev.B) : SmallTokK(ev.B[i], cplx, 64)) /\ (\A i \in 1..Len(ev.C0) : betazero \/ SmallTokK(ev.C0[i], cplx, 64))
               /\ SmallTokK(ev.alpha, cplx, 4) /\ SmallTokK(ev.beta, cplx, 4)
               /\ Len(ev.B) >= (ev.nb - 1) * ev.ldb + rowsB /\ Len(ev.C0) >= (ev.nb - 1) * ev.ldc + rowsC
      colB(k) == [i \in Idx(rowsB) |-> Val(ev.B[(k - 1) * ev.ldb + i + 1], cplx)]
      colC0(k) == [i \in Idx(rowsC) |-> IF betazero THEN CZero ELSE Val(ev.C0[(k - 1) * ev.ldc + i + 1], cplx)]
      want(k) == Gemv(IF cplx THEN tr ELSE (IF tr = "C" THEN "T" ELSE tr), Val(ev.alpha, cplx), A, m, n, colB(k), Val(ev.beta, cplx), colC0(k))
      colOK(k) == \A i \in Idx(rowsC) : ValOK(ev.C1[(k - 1) * ev.ldc + i + 1], cplx) /\ Val(ev.C1[(k - 1) * ev.ldc + i + 1], cplx) = want(k)[i]
      padOK == \A k \in 1..ev.nb : \A i \in rowsC..(ev.ldc - 1) : ((k - 1) * ev.ldc + i + 1 <= Len(ev.C1)) => ev.C1[(k - 1) * ev.ldc + i + 1] = ev.C0[(k - 1) * ev.ldc + i + 1]
      bad == (IF exact /\ (\E k \in 1..ev.nb : ~colOK(k)) THEN {"C14.gemm_result"} ELSE {})
             \cup (IF exact /\ ~padOK THEN {"C14.gemm_wrote_padding"} ELSE {})
             \cup (IF ev.B_same # 1 THEN {"C14.input_modified"} ELSE {})
  IN [bad |-> bad \cup LedgerCls(ev, "_gemm"), arb |-> {}, cov |-> (IF exact THEN {"C14.gemm_exact_" \o tr} ELSE {"C14.gemm_other"})]
GstrsVerdict(ev) ==
  LET n == ev.n  cplx == IsCplx(ev.ty)
      tr == CASE ev.trans = 0 -> "N" [] ev.trans = 1 -> "T" [] OTHER -> (IF cplx THEN "C" ELSE "T")
      wf == Has(ev, "L") /\ WellFormed(ev.L, ev.U, n, n, FALSE, LAMBDA t : TokIsZero(t, cplx)) = "ok"
      DL == DenseL(ev.L, n, n, LAMBDA t : Val(t, cplx), CZero, COne)
      DU == DenseU(ev.L, ev.U, n, LAMBDA t : Val(t, cplx), CZero)
      permsok == IsPerm(ev.perm_c, n) /\ IsPerm(ev.perm_r, n)
      exact == wf /\ permsok /\ ev.info = 0 /\ FactorsSmall(ev, cplx, 16) /\ (\A k \in Idx(n) : CIsPow2(DU[<<k, k>>]))
               /\ \A k \in 1..ev.nrhs : \A i \in 1..n : SmallTokK(ev.B0[k][i], cplx, 16)
      pr == [i \in Idx(n) |-> ev.perm_r[i + 1]]
      pc == [i \in Idx(n) |-> ev.perm_c[i + 1]]
      want(k) == Gstrs(tr, DL, DU, pr, pc, VecOf(ev.B0[k], n, cplx), n)
      colOK(k) == (\A i \in 1..n : ValOK(ev.B1[k][i], cplx)) /\ VecOf(ev.B1[k], n, cplx) = want(k)
      bad == (IF exact /\ (\E k \in 1..ev.nrhs : ~colOK(k)) THEN {"C14.gstrs_result"} ELSE {})
             \cup (IF ev.padB_same # 1 THEN {"C14.gstrs_wrote_padding"} ELSE {})
             \cup (IF ev.same.Lval # 1 \/ ev.same.Uval # 1 \/ ev.same.Lstr # 1 \/ ev.same.Ustr # 1 THEN {"C14.factors_modified"} ELSE {})
  IN [bad |-> bad \cup LedgerCls(ev, "_gstrs"), arb |-> {}, cov |-> (IF exact THEN {"C14.gstrs_exact_" \o tr \o "_nrhs" \o ToString(ev.nrhs)} ELSE {"C14.gstrs_other"})]

(***************************************************************************)
(* ?ldperm (C17) on the log domain: bijection with a nonzero diagonal,      *)
(* maximal product, unit scaling (dual feasibility), arrays untouched,      *)
(* structural singularity reported.                                         *)
(***************************************************************************)
MatchVerdict(ev) ==
  LET n == ev.n  cplx == IsCplx(ev.ty)
      \* explicitly stored zeros are not nonzeros: they may not be matched and do not constrain the scaling
      NZ == {t \in 1..Len(ev.A0) : ~TokIsZero(ev.A0[t][3], cplx)}
      dl == \A t \in NZ : DLTok(ev.A0[t][3], cplx) /\ MagExp(ev.A0[t][3], cplx) # Z
            /\ (cplx => (ZeroTok(ev.A0[t][3][1]) \/ ZeroTok(ev.A0[t][3][2])))          \* modulus of a pure real / imaginary entry is a power of two
      W == [ij \in {<<ev.A0[t][1], ev.A0[t][2]>> : t \in NZ} |->
              MagExp(ev.A0[CHOOSE t \in NZ : ev.A0[t][1] = ij[1] /\ ev.A0[t][2] = ij[2]][3], cplx)]
      small == n <= 5                    \* enumeration of all matchings; above that Hall's condition and the dual certificate
      lim == n <= 8
      \* structural singularity is a matter of the stored pattern (explicit zeros included); when the stored pattern has a
      \* perfect matching but the nonzeros alone have none, nothing is demanded (no matching with a nonzero diagonal exists)
      Wall == [ij \in {<<ev.A0[t][1], ev.A0[t][2]>> : t \in 1..Len(ev.A0)} |-> 0]
      singS == IF small THEN StructSingular(Wall, n) ELSE HallViolated(Wall, n)
      singN == IF small THEN StructSingular(W, n) ELSE HallViolated(W, n)
      ambiguous == ~singS /\ singN
      sing == singS
      p == [i \in Ix0(n) |-> ev.perm[i + 1]]
      pok == IsMatching(p, W, n)
      u == [i \in Ix0(n) |-> ev.u_log2[i + 1]]
      v == [i \in Ix0(n) |-> ev.v_log2[i + 1]]
      integral == ev.dual_dev_micro <= 1000
      certified == ev.job = 5 /\ integral /\ DualFeasible(u, v, p, W, n)       \* weak duality (MC_Match!DualCertifies)
      optimal == IF small THEN Value(p, W, n) = MaxValue(W, n) ELSE (certified \/ Value(p, W, n) = MaxValueRec(W, n))
      bad == IF ~dl \/ ~lim \/ ambiguous THEN {} ELSE
             (IF sing /\ ev.ret = 0 THEN {"C17.structural_singularity_not_reported"} ELSE {})
             \cup (IF ~sing /\ ev.ret # 0 THEN {"C17.nonsingular_reported_singular"} ELSE {})
             \cup (IF ~sing /\ ev.ret = 0 /\ ~pok THEN {"C17.not_a_matching_with_nonzero_diagonal"} ELSE {})
             \cup (IF ~sing /\ ev.ret = 0 /\ pok /\ ~optimal THEN {"C17.product_not_maximal"} ELSE {})
             \cup (IF ~sing /\ ev.ret = 0 /\ pok /\ ev.job = 5 /\ ~integral THEN {"C17.scaling_not_integral_on_log_domain"} ELSE {})
             \cup (IF ~sing /\ ev.ret = 0 /\ pok /\ ev.job = 5 /\ integral /\ ~DualFeasible(u, v, p, W, n) THEN {"C17.scaling_not_unit"} ELSE {})
      bad2 == IF ev.arrays_same # 1 \/ ev.values_same # 1 THEN {"C17.caller_arrays_modified"} ELSE {}
  IN [bad |-> bad \cup bad2 \cup LedgerCls(ev, "_ldperm"), arb |-> (IF dl /\ lim THEN {} ELSE {"C17.float_slice"}),
      cov |-> (IF dl /\ lim THEN {IF sing THEN "C17.structurally_singular" ELSE IF small THEN "C17.matching_checked" ELSE "C17.matching_checked_by_certificate"} ELSE {})]

(***************************************************************************)
(* File readers (C16): the returned compressed-column matrix is exactly the *)
(* matrix written in the file (symmetric storage expanded), 0-based, inside *)
(* the arrays the reader allocated.                                         *)
(***************************************************************************)
ReaderVerdict(ev) ==
  LET n == ev.expect_n
      want == {<<ev.expect[t][1], ev.expect[t][2], ev.expect[t][3]>> : t \in 1..Len(ev.expect)}
      shape == Has(ev, "colptr") /\ ev.m = n /\ ev.n = n /\ Len(ev.colptr) = n + 1 /\ ev.colptr[1] = 0
               /\ (\A j \in 1..n : ev.colptr[j] <= ev.colptr[j + 1]) /\ ev.colptr[n + 1] = ev.nnz
               /\ Len(ev.rowind) = ev.nnz /\ Len(ev.nzval) = ev.nnz
      gotOf(j) == {<<ev.rowind[q + 1], ev.nzval[q + 1]>> : q \in ev.colptr[j + 1]..(ev.colptr[j + 2] - 1)}
      bad == IF ~Has(ev, "expect") THEN {}
             ELSE IF ~shape THEN {"C16.dimensions_or_pointers"}
             ELSE (IF ev.nnz # Cardinality(want) THEN {"C16.nonzero_count"} ELSE {})
                  \cup (IF \E j \in 0..(n - 1) : \E e \in gotOf(j) : e[1] < 0 \/ e[1] >= n THEN {"C16.index_out_of_range"} ELSE {})
                  \cup (IF \E j \in 0..(n - 1) : gotOf(j) # {<<w[1], w[3]>> : w \in {x \in want : x[2] = j}} THEN {"C16.pattern_or_values_differ"} ELSE {})
                  \cup (IF \E j \in 0..(n - 1) : Cardinality(gotOf(j)) # ev.colptr[j + 2] - ev.colptr[j + 1] THEN {"C16.duplicate_entries"} ELSE {})
                  \cup (IF ev.alloc.nzval < ev.nnz \/ ev.alloc.rowind < ev.nnz \/ ev.alloc.colptr < n + 1 THEN {"C16.arrays_shorter_than_content"} ELSE {})
  IN [bad |-> bad \cup LedgerCls(ev, "_read_" \o ev.fmt), arb |-> {}, cov |-> {"C16.read_" \o ev.fmt}]

(***************************************************************************)
(* Fortran-callable bridge (C20).  sc.gref = the last simple-driver call of *)
(* the scenario (matrix, right-hand sides, solution): a bridge solve of the *)
(* same system must return the same bits.                                   *)
(***************************************************************************)
BridgeVerdict(ev, sc) ==
  LET n == ev.n  cplx == IsCplx(ev.ty)
      aok == \A t \in 1..Len(ev.A0) : ValOK(ev.A0[t][3], cplx) /\ ATokSmall(ev.A0[t][3], cplx)
      A == DenseOf(ev.A0, n, n, cplx, FALSE)
      sv == IF ev.iopt = 2 /\ ev.info = 0 /\ Has(ev, "B0") /\ ev.nrhs > 0 THEN SolveVerdict(ev, A, aok, n, ev.B1, cplx, "C20.residual")
            ELSE [arb |-> {}, cov |-> {}, nexact |-> 0, allexact |-> FALSE]
      sameSystem == sc.gref # <<>> /\ Has(ev, "B0") /\ sc.gref[1] = ev.A0 /\ sc.gref[2] = ev.B0
      bad == (IF ev.arrays_same # 1 THEN {"C20.caller_arrays_modified"} ELSE {})
             \cup (IF ev.iopt = 1 /\ ev.info = 0 /\ ev.live_delta <= 0 THEN {"C20.factor_owns_nothing"} ELSE {})
             \cup (IF ev.iopt = 1 /\ Has(ev, "B_same") /\ ev.B_same # 1 THEN {"C20.factor_touched_b"} ELSE {})
             \cup (IF ev.iopt = 2 /\ ev.live_delta # 0 THEN {"C20.solve_retains_allocation"} ELSE {})
             \cup (IF ev.iopt = 2 /\ ev.info = 0 /\ sameSystem /\ ev.B1 # sc.gref[3] THEN {"C20.solution_differs_from_simple_driver"} ELSE {})
             \cup (IF ev.iopt = 2 /\ Has(ev, "padB_same") /\ ev.padB_same # 1 THEN {"C20.padding_written"} ELSE {})
             \cup (IF ev.iopt = 3 /\ ev.live_delta >= 0 THEN {"C20.free_released_nothing"} ELSE {})
             \* a free request releases exactly what the factor request of that handle allocated and kept
             \cup (IF ev.iopt = 3 /\ ev.live_delta # -sc.bown[ev.slot + 1] THEN {"C20.free_does_not_release_what_the_handle_owns"} ELSE {})
             \cup (IF ev.bad_frees # 0 THEN {"C20.bad_free"} ELSE {})
             \cup (IF ev.redzone # 0 THEN {"C20.redzone"} ELSE {})
  IN [bad |-> bad, arb |-> sv.arb, cov |-> sv.cov \cup {"C20.iopt_" \o ToString(ev.iopt)} \cup (IF ev.iopt = 2 /\ sameSystem THEN {"C20.compared_with_simple_driver"} ELSE {})]

(***************************************************************************)
(* Rejected calls (C18): the routine reports the position SluScreen!Screen  *)
(* computes from the violated preconditions, every caller object is byte-   *)
(* identical and no allocation is retained.                                 *)
(***************************************************************************)
(***************************************************************************)
(* MC64 heap routines driven one operation at a time (C17): hp = members of *)
(* the abstract priority queue before the operation.                        *)
(***************************************************************************)
HeapMembers(hp, ev) == IF ev.op = "I" THEN hp \cup {ev.arg} ELSE IF ev.op \in {"E", "F"} THEN hp \ {ev.removed} ELSE hp
HeapVerdict(ev, hp) ==
  LET n == ev.n
      key == [i \in 1..n |-> ev.keys[i]]
      mem == HeapMembers(hp, ev)
      rep == RepOK(ev.iway, mem, key, ev.qlen, ev.Q, ev.L, n)
      bad == (IF ~rep THEN {"C17.heap_representation"} ELSE IF ~HeapOrder(ev.iway, key, ev.qlen, ev.Q) THEN {"C17.heap_order"} ELSE {})
             \cup (IF ev.op = "E" /\ ~BestOf(ev.iway, hp, key, ev.removed) THEN {"C17.heap_root_is_not_a_best_member"} ELSE {})
  IN [bad |-> bad, arb |-> {}, cov |-> {"C17.heap_op_" \o ev.op}]

ScreenI == INSTANCE SluScreen WITH done <- FALSE
ScreenVerdict(ev) ==
  LET corrs == {ev.corrupt[i] : i \in 1..Len(ev.corrupt)}
      \* preconditions on equed / R / C exist only when pre-computed factors are supplied
      \* (and the scale factors only for the kind of equilibration the equed letter names)
      eq == IF Has(ev, "eq") THEN ev.eq ELSE "B"
      eff == IF ev.fact = 3 THEN ScreenI!EffectiveEq(corrs, eq) ELSE corrs \ ScreenI!NeedsFactored
      expect == ScreenI!Screen(ev.routine, eff)
      bad == (IF expect # 0 /\ ev.info # expect THEN {"C18.info_position"} ELSE {})
             \cup (IF expect # 0 /\ ev.unchanged # 1 THEN {"C18.caller_objects_modified"} ELSE {})
             \cup (IF expect # 0 /\ ev.live_delta # 0 THEN {"C18.allocation_retained"} ELSE {})
             \cup (IF ev.bad_frees # 0 THEN {"C18.bad_free"} ELSE {})
  IN [bad |-> bad, arb |-> {}, cov |-> (IF expect # 0 THEN {"C18.rejected_" \o ev.routine} ELSE {"C18.accepted_" \o ev.routine})]

\* the options structure is an input: a value written into it by the library is state carried to the caller's next call
\* (C09: a repeated call with the same objects no longer has the same arguments; C05: only A and B may be modified)
OptsCls(ev) == IF Has(ev, "opts_same") /\ ev.opts_same # 1 THEN {"C09.options_written_by_the_library", "C05.options_written_by_the_library"} ELSE {}
Verdict(ev, pm, sc) ==
  IF ev.e = "Ret" THEN
     (CASE ev.fn = "gssv" -> LET gv == GssvVerdict(ev) IN [gv EXCEPT !.bad = @ \cup OptsCls(ev)]
        [] ev.fn = "gstrf" -> LET gv == GstrfVerdict(ev) IN [gv EXCEPT !.bad = @ \cup OptsCls(ev)]
        [] ev.fn \in {"gssvx", "gsisx"} -> LET gv == GssvxVerdict(ev, sc) IN
                                            [gv EXCEPT !.bad = @ \cup (IF sc.rf.stepped THEN {"C13.berr_not_recomputed_after_last_update"} ELSE {})
                                                               \cup OptsCls(ev)]
        [] ev.fn = "screen" -> ScreenVerdict(ev)
        [] ev.fn = "equ" -> EquVerdict(ev)
        [] ev.fn = "lacon" -> LaconVerdict(ev)
        [] ev.fn = "order" -> OrderVerdict(ev, sc)
        [] ev.fn = "ldperm" -> MatchVerdict(ev)
        [] ev.fn = "heap" -> HeapVerdict(ev, sc.hp)
        [] ev.fn = "read" -> ReaderVerdict(ev)
        [] ev.fn = "bridge" -> BridgeVerdict(ev, sc)
        [] ev.fn = "trsv" -> TrsvVerdict(ev)
        [] ev.fn = "gemv" -> GemvVerdict(ev)
        [] ev.fn = "gemm" -> GemmVerdict(ev)
        [] ev.fn = "gstrs" -> GstrsVerdict(ev)
        [] ev.fn \in {"ata", "aplusat"} -> StructVerdict(ev)
        [] OTHER -> [bad |-> (IF Has(ev, "ledger") THEN LedgerCls(ev, "_" \o ev.fn) ELSE {}), arb |-> {}, cov |-> {"ledger_only_" \o ev.fn}])
  ELSE IF ev.e = "Done" THEN
     [bad |-> (IF ev.status # "ok" THEN {"C19.abnormal_end_" \o ev.status} ELSE {}), arb |-> {}, cov |-> {}]
  ELSE IF ev.e = "Ledger" THEN
     \* after the caller destroyed what it was handed nothing is left (reported once: not again if a call of this
     \* scenario was already found to leak)
     [bad |-> (IF ev.ledger.live # 0 /\ ~sc.leaked THEN {"C19.leak_at_end"} ELSE {}) \cup (IF ev.ledger.bad_frees # 0 THEN {"C19.bad_free"} ELSE {})
              \cup (IF ev.ledger.redzone # 0 \/ ev.ledger.sweep # 0 THEN {"C19.redzone"} ELSE {}), arb |-> {}, cov |-> {"C19.ledger_end"}]
  ELSE IF ev.e = "Unevaluable" THEN
     \* (written by the orchestrator in place of a scenario whose recorded output the operators above are not defined on)
     [bad |-> {"C19.abnormal_end_unevaluable_output_of_" \o ev.at}, arb |-> {}, cov |-> {}]
  ELSE IF IsMemEvent(ev) THEN MemVerdict(pm, ev, sc.ty, sc.liw)
  ELSE IF IsRefineEvent(ev) THEN RefineVerdict(sc.rf, ev)
  ELSE [bad |-> {}, arb |-> {}, cov |-> {}]

VARIABLES l, pm, sc, solo      \* solo: scenario id -> outputs of its calls when executed alone (C09)
vars == <<l, pm, sc, solo>>
NoCtx == [mode |-> "", cnt |-> 0, first |-> <<>>, repeat |-> FALSE, gref |-> <<>>, bown |-> <<0, 0, 0, 0>>, ordref |-> <<>>, rf |-> [j |-> -1, count |-> 0, want |-> FALSE, stepped |-> FALSE], ref |-> <<>>, refd2 |-> FALSE, leaked |-> FALSE, memfail |-> FALSE, ty |-> "d", liw |-> 4, id |-> "", nexp |-> 0, memev |-> FALSE, hp |-> {}]
TInit == l = 1 /\ pm = <<>> /\ sc = NoCtx /\ solo = <<>>
\* what a call returns to its caller (everything but the allocation ledger, which is global)
ProjKeys == {"fn", "info", "equed", "perm_c", "perm_r", "etree", "R", "C", "L", "U", "X1", "B1", "A1v", "rcond", "rpg", "ferr", "berr", "steps",
             "expansions", "mem", "perm", "u", "v", "ret", "x1", "y1", "colbeg", "colend", "rowcnd", "colcnd", "amax", "b_colptr", "b_rowind"}
Proj(ev) == [k \in (DOMAIN ev) \cap ProjKeys |-> ev[k]]
SoloOf(id) == LET S == {i \in 1..Len(solo) : solo[i][1] = id} IN IF S = {} THEN <<>> ELSE solo[CHOOSE i \in S : TRUE][2]
ConcVerdict(ev, ctx) ==
  IF ev.e # "Ret" THEN [bad |-> {}, cov |-> {}]
  ELSE IF ctx.mode = "mt" THEN
       LET ref == SoloOf(ev.id) IN
       [bad |-> (IF Len(ref) < ctx.cnt + 1 THEN {"C09.no_solo_reference"} ELSE IF ref[ctx.cnt + 1] # Proj(ev) THEN {"C09.output_differs_from_the_call_executed_alone"} ELSE {}),
        cov |-> {"C09.compared_with_solo"}]
  ELSE IF ctx.repeat /\ ctx.first # <<>> THEN
       [bad |-> (IF ctx.first # Proj(ev) THEN {"C09.repeated_call_differs"} ELSE {}), cov |-> {"C09.repeat_compared"}]
  ELSE [bad |-> {}, cov |-> {}]
TNext == /\ l <= Len(Tr)
         /\ LET ev == Tr[l]  v == Verdict(ev, pm, sc)  cv == ConcVerdict(ev, sc) IN
            /\ PrintT(ToJson([line |-> l, id |-> (IF Has(ev, "id") THEN ev.id ELSE sc.id), e |-> ev.e,
                              fn |-> (IF Has(ev, "fn") THEN ev.fn ELSE ev.e),
                              bad |-> v.bad \cup cv.bad, arb |-> v.arb, cov |-> v.cov \cup cv.cov]))
            /\ solo' = IF ev.e = "Ret" /\ sc.mode = "solo"
                       THEN (IF \E i \in 1..Len(solo) : solo[i][1] = ev.id
                             THEN [i \in 1..Len(solo) |-> IF solo[i][1] = ev.id THEN <<ev.id, Append(solo[i][2], Proj(ev))>> ELSE solo[i]]
                             ELSE Append(solo, <<ev.id, <<Proj(ev)>>>>))
                       ELSE solo
            /\ pm' = IF IsMemEvent(ev) THEN ev ELSE IF ev.e \in {"RedZone", "AllocFail", "BadFree", "RefineIter", "RefineStep", "RefineStop"} THEN pm ELSE <<>>
            /\ sc' = IF ev.e = "Reset" THEN [NoCtx EXCEPT !.ty = ev.ty, !.id = ev.id]
                     ELSE IF IsMemEvent(ev) THEN
                          [sc EXCEPT !.memfail = sc.memfail \/ MemFailure(ev), !.memev = TRUE,
                                     !.nexp = IF ev.e = "Expand" /\ ev.ok = 1 /\ pm # <<>> /\ pm.e = "ExpandBegin" /\ pm.numexp > 0 THEN sc.nexp + 1 ELSE sc.nexp]
                     ELSE IF ev.e = "Mode" THEN [sc EXCEPT !.mode = ev.mode]
                     ELSE IF ev.e = "Mark" THEN [sc EXCEPT !.repeat = (ev.tag = "repeat")]
                     ELSE IF IsRefineEvent(ev) THEN [sc EXCEPT !.rf = RefineNext(sc.rf, ev)]
                     ELSE IF ev.e = "Ret" THEN
                          [sc EXCEPT !.cnt = sc.cnt + 1, !.first = (IF sc.first = <<>> THEN Proj(ev) ELSE sc.first), !.repeat = FALSE, !.gref = (IF ev.fn = "gssv" /\ ev.info = 0 /\ Has(ev, "B0") THEN <<ev.A0, ev.B0, ev.B1>> ELSE sc.gref),
                                     \* what each bridge handle owns (ledger delta of its factor request)
                                     !.bown = (IF ev.fn = "bridge" /\ ev.iopt = 1 THEN [sc.bown EXCEPT ![ev.slot + 1] = ev.live_delta] ELSE sc.bown),
                                     !.ordref = (IF Has(v, "ord") THEN v.ord ELSE sc.ordref), !.rf = NoCtx.rf, !.leaked = sc.leaked \/ (Has(ev, "ledger") /\ ev.ledger.live_internal # 0), !.memfail = FALSE, !.liw = (IF Has(ev, "itsz") THEN ev.itsz ELSE sc.liw), !.nexp = 0, !.memev = FALSE,
                                     !.ref = IF sc.ref = <<>> /\ Has(v, "digs") THEN v.digs ELSE sc.ref,
                                     !.refd2 = IF sc.ref = <<>> /\ Has(v, "digs") THEN v.d2 ELSE sc.refd2,
                                     !.hp = IF ev.fn = "heap" THEN HeapMembers(sc.hp, ev) ELSE sc.hp]
                     ELSE sc
         /\ l' = l + 1
TraceSpec == TInit /\ [][TNext]_vars
TraceAccepted == TLCGet("stats").diameter - 1 = Len(Tr)
=============================================================================
