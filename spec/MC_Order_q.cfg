SPECIFICATION Spec
CONSTANTS
  M = 3
  N = 3
  PERMS = "all"
INVARIANT LiuIsDef
INVARIANT HeapOrdered
INVARIANT PostorderCorrect
CHECK_DEADLOCK FALSE
