------------------------------ MODULE SluFactor ------------------------------
(***************************************************************************)
(* Sparse LU with threshold partial pivoting, as SuperLU performs it        *)
(* (?gstrf + ?pivotL), over exact Gaussian rationals.                       *)
(*                                                                          *)
(* State of an elimination (record `st`):                                   *)
(*   W     (orig row, permuted column) -> value.  Column j of A*Pc.  Rows   *)
(*         already pivoted hold their final U row; the others hold the      *)
(*         multipliers (columns < j) and the Schur complement (columns >=j) *)
(*   piv   sequence of pivot rows chosen so far (original row numbers)      *)
(*   sing  0, or j+1 for the first column without a nonzero candidate       *)
(*   d2    TRUE while every value met so far lies in the exact domain D2    *)
(*         (unit power-of-two pivots, small operands); value clauses are    *)
(*         asserted only while d2 holds.                                    *)
(* One column step = one iteration of the jcol loops of ?gstrf: update is   *)
(* implicit (right-looking form of the same arithmetic), then the pivot    *)
(* rule of ?pivotL, then the division.                                      *)
(*                                                                          *)
(* Policy layer: `CodePivot` is the row the code picks (first maximum,      *)
(* diagonal preferred, remembered row when reusing).  Safety layer:         *)
(* `PivotAllowed` is what C02 demands (nonzero, passes the threshold;       *)
(* diagonal whenever it passes, unless reusing).                            *)
(***************************************************************************)
EXTENDS Integers, Sequences, FiniteSets, Rat

Rows(m) == 0 .. (m - 1)
IsPerm(p, n) == Len(p) = n /\ {p[i] : i \in 1..n} = 0 .. (n - 1)
\* inverse of a 0-based permutation given as a 1-based sequence: result is a function on 0..n-1
InvPerm(p, n) == [k \in 0 .. (n - 1) |-> (CHOOSE i \in 1..n : p[i] = k) - 1]
SeqToSet(s) == {s[i] : i \in 1..Len(s)}

\* D2 operand bounds per arithmetic type (DESIGN 3): chosen so that every partial sum of at most
\* 8 products (16 for complex) of such operands fits the significand of the type in any order,
\* and so that the exact evaluation below stays inside TLC's 32-bit integers.
NumBound(ty) == CASE ty = "d" -> 1000 [] ty = "z" -> 100 [] ty = "s" -> 64 [] ty = "c" -> 40
DenBound(ty) == CASE ty = "d" -> 512  [] ty = "z" -> 64  [] ty = "s" -> 8  [] ty = "c" -> 8
SmallV(z, ty) == /\ Abs(z[1][1]) <= NumBound(ty) /\ z[1][2] <= DenBound(ty)
                 /\ Abs(z[2][1]) <= NumBound(ty) /\ z[2][2] <= DenBound(ty)

InitState(P, m, n) == [W |-> P, piv |-> <<>>, sing |-> 0, d2 |-> TRUE]

Cand(st, m) == Rows(m) \ SeqToSet(st.piv)
ColMax(st, j, m) == LET C == Cand(st, m) IN IF C = {} THEN RZero ELSE RMaxOf({CAbs1(st.W[<<i, j>>]) : i \in C})
NoCandidate(st, j, m) == \A i \in Cand(st, m) : CIsZero(st.W[<<i, j>>])

\* ---- safety layer: what the property demands of the pivot of column j ----
PassesThreshold(st, j, m, i, u) == /\ ~CIsZero(st.W[<<i, j>>])
                                   /\ RLe(RMul(u, ColMax(st, j, m)), CAbs1(st.W[<<i, j>>]))
PivotViolations(st, j, m, p, u, diag, reuse) ==
     (IF p \notin Cand(st, m) THEN {"C02.pivot_row_reused"} ELSE
        (IF CIsZero(st.W[<<p, j>>]) THEN {"C02.pivot_zero"} ELSE {})
        \cup (IF ~CIsZero(st.W[<<p, j>>]) /\ ~PassesThreshold(st, j, m, p, u) THEN {"C02.threshold"} ELSE {})
        \cup (IF ~reuse /\ diag \in Cand(st, m) /\ PassesThreshold(st, j, m, diag, u) /\ p # diag THEN {"C02.diag_preferred"} ELSE {}))
PivotAllowed(st, j, m, p, u, diag, reuse) == PivotViolations(st, j, m, p, u, diag, reuse) = {}

\* ---- policy layer: the row ?pivotL picks (first maximum in candidate order `ord`) ----
CodePivot(st, j, m, u, diag, usepr, oldp, ord) ==
  LET C == Cand(st, m)
      mx == ColMax(st, j, m)
      firstmax == ord[CHOOSE k \in 1..Len(ord) : /\ ord[k] \in C /\ CAbs1(st.W[<<ord[k], j>>]) = mx
                                                 /\ \A k2 \in 1..(k - 1) : ~(ord[k2] \in C /\ CAbs1(st.W[<<ord[k2], j>>]) = mx)]
  IN IF usepr /\ oldp \in C /\ PassesThreshold(st, j, m, oldp, u) THEN oldp
     ELSE IF diag \in C /\ PassesThreshold(st, j, m, diag, u) THEN diag
     ELSE firstmax

\* ---- one column step with pivot row p (precondition: column has a nonzero candidate, st.d2) ----
Eliminate(st, j, m, n, p, ty) ==
  LET piv == st.W[<<p, j>>]
      C == Cand(st, m) \ {p}
      unit == CIsPow2(piv)
      Lcol == [i \in C |-> CDivU(st.W[<<i, j>>], piv)]
      lsmall == unit /\ \A i \in C : SmallV(Lcol[i], ty)
      W2 == [ij \in DOMAIN st.W |->
               IF ij[1] \in C THEN
                  (IF ij[2] = j THEN Lcol[ij[1]]
                   ELSE IF ij[2] > j /\ ~CIsZero(Lcol[ij[1]]) /\ ~CIsZero(st.W[<<p, ij[2]>>])
                        THEN CSub(st.W[ij], CMul(Lcol[ij[1]], st.W[<<p, ij[2]>>]))
                        ELSE st.W[ij])
               ELSE st.W[ij]]
  IN IF ~unit \/ ~lsmall THEN [st EXCEPT !.piv = Append(st.piv, p), !.d2 = FALSE]
     ELSE LET ok2 == \A ij \in DOMAIN W2 : SmallV(W2[ij], ty) IN
          [W |-> W2, piv |-> Append(st.piv, p), sing |-> st.sing, d2 |-> ok2]

\* the same step in unrestricted exact arithmetic (general division, no D2 gating): used by the
\* model-checking configurations, whose value sets are small enough to stay inside 32 bits
EliminateX(st, j, m, n, p) ==
  LET piv == st.W[<<p, j>>]
      C == Cand(st, m) \ {p}
      Lcol == [i \in C |-> CDiv(st.W[<<i, j>>], piv)]
      W2 == [ij \in DOMAIN st.W |->
               IF ij[1] \in C THEN
                  (IF ij[2] = j THEN Lcol[ij[1]]
                   ELSE IF ij[2] > j THEN CSub(st.W[ij], CMul(Lcol[ij[1]], st.W[<<p, ij[2]>>]))
                        ELSE st.W[ij])
               ELSE st.W[ij]]
  IN [W |-> W2, piv |-> Append(st.piv, p), sing |-> st.sing, d2 |-> st.d2]

\* exact factors read off a finished state (rows renumbered by pr: orig row -> position)
ExactL(st, i, j) == st.W[<<i, j>>]                         \* multiplier of original row i in column j
ExactU(st, k, j) == st.W[<<st.piv[k + 1], j>>]             \* U(k,j), k <= j

(***************************************************************************)
(* Replay of a recorded factorization along its recorded pivots.           *)
(*   P      A*Pc as (orig row, permuted col) -> value                       *)
(*   ipr    position k -> original row that was given position k (pivot)    *)
(*   ncols  number of leading columns to replay                             *)
(* Result: [st, bad, done] -- violated clause names and the number of       *)
(* columns whose pivot clauses were evaluated in exact arithmetic.          *)
(***************************************************************************)
RECURSIVE Replay(_, _, _, _, _, _, _, _, _, _, _)
Replay(st, j, ncols, m, n, ipr, ipc, u, reuse, ty, bad) ==
  IF j = ncols \/ ~st.d2 \/ bad # {} THEN [st |-> st, bad |-> bad, done |-> j]
  ELSE IF NoCandidate(st, j, m) THEN [st |-> [st EXCEPT !.sing = j + 1], bad |-> bad, done |-> j]
  ELSE LET p == ipr[j]
           v == PivotViolations(st, j, m, p, u, ipc[j], reuse)
       IN IF v # {} THEN [st |-> st, bad |-> v, done |-> j]
          ELSE Replay(Eliminate(st, j, m, n, p, ty), j + 1, ncols, m, n, ipr, ipc, u, reuse, ty, bad)

\* structural rank via Hall's condition on the pattern (set of <<row, col>>), n columns
StructurallySingular(pat, m, n) ==
  \E S \in SUBSET (0 .. (n - 1)) : Cardinality({i \in Rows(m) : \E c \in S : <<i, c>> \in pat}) < Cardinality(S)
=============================================================================
