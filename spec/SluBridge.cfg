SPECIFICATION Spec
CONSTANTS
  Handles = {0, 1}
  MaxLen = 5
INVARIANT Emit
INVARIANT Protocol
CHECK_DEADLOCK FALSE
