SPECIFICATION Spec
INVARIANT TablesOK
CHECK_DEADLOCK FALSE
