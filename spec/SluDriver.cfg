SPECIFICATION Spec
CONSTANT N = 3
INVARIANT TypeOK
INVARIANT PolicyIsSafe
CHECK_DEADLOCK FALSE
