------------------------------ MODULE MC_Equil ------------------------------
EXTENDS SluEquil
CONSTANTS M, N, TY
F == FmtOf(TY)
\* exponents spanning the range of the type: zero, smallest subnormal, below / at the smallest normal, around one, near overflow
CONSTANT WIDE
Exps == IF WIDE THEN {Z, F.dmin, F.emin - 1, F.emin, -4, 0, 3, F.emax - 1, F.emax}
        ELSE {Z, F.dmin, F.emin, 0, F.emax}
VARIABLE A
Init == A \in [(0..(M - 1)) \X (0..(N - 1)) -> Exps]
Next == UNCHANGED A
Spec == Init /\ [][Next]_A
G == GsEqu(A, M, N, F)
InvRange == FactorsInRange(G, M, N, F)
InvRows == RowsEquilibrated(A, G, M, N, F)
InvCols == ColsEquilibrated(A, G, M, N, F)
InvZero == ZeroLineReported(A, G, M, N)
InvEqued == G.info = 0 => Decide(G, F) \in {"N", "R", "C", "B"}
=============================================================================
