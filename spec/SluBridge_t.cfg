SPECIFICATION Spec
CONSTANTS
  Handles = {0, 1}
  MaxLen = 7
INVARIANT Emit
INVARIANT Protocol
CHECK_DEADLOCK FALSE
