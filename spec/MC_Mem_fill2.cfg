SPECIFICATION Spec
CONSTANTS
  N = 2
  M = 2
  ANNZ = 3
  FILL = 2
  PANEL = 1
  MAXSUPER = 1
  ROWBLK = 1
  DW = 8
  LIW = 4
  LWORKS <- LW_all
  ALIGNS <- AL_both
  MAXL = 6
  MAXU = 4
  MAXLU = 6
  MAXFAIL = 2
  LEGACY = FALSE
INVARIANT TypeOK
INVARIANT StackSane
INVARIANT PtrsOK
INVARIANT RegionsOK
INVARIANT WorkOK
INVARIANT WritesInside
INVARIANT ShortageReported
PROPERTY ExpandGrows
CHECK_DEADLOCK FALSE
