#!/usr/bin/env python3
"""seed_regress.py [name-prefix ...]  -- re-runs every stored seeded change (seeded/*/patch.diff) against the quick checks
that are expected to catch it (meta.json: detected_by, else base property) and reports which are still detected.
Applies each patch to /repo (git apply), runs, reverts (git checkout -- .).  /repo must be clean."""
import glob, json, os, subprocess, sys, time
V = os.path.dirname(os.path.dirname(os.path.abspath(__file__)))
sel = sys.argv[1:]
st = subprocess.run("git -C /repo status --short | grep -v '^??'", shell=True, stdout=subprocess.PIPE, text=True).stdout.strip()
if st:
    print("/repo is not clean:\n" + st); sys.exit(2)
rows = []
for d in sorted(glob.glob(os.path.join(V, "seeded", "*", ""))):
    name = os.path.basename(d.rstrip("/"))
    if sel and not any(name.startswith(s) for s in sel):
        continue
    mp = os.path.join(d, "meta.json")
    if not os.path.exists(mp):
        continue
    meta = json.load(open(mp))
    props = meta.get("detected_by") or [meta.get("base_property", meta["property"][:3])]
    patch = os.path.join(d, "patch.diff")
    apply_cmd = "git -C /repo apply %s" % patch
    if subprocess.run("git -C /repo apply --check %s" % patch, shell=True, stderr=subprocess.DEVNULL).returncode != 0:
        # hook lines added to /repo later can sit inside the context of a stored patch: patch(1) with fuzz, else listed
        apply_cmd = "patch -p1 -F3 --no-backup-if-mismatch -r - -d /repo < %s" % patch
        if subprocess.run("patch -p1 -F3 --dry-run --no-backup-if-mismatch -r - -d /repo < %s" % patch, shell=True, stdout=subprocess.DEVNULL, stderr=subprocess.DEVNULL).returncode != 0:
            rows.append((name, props, "PATCH DOES NOT APPLY (stored before the phase hooks were added to this file)")); print(rows[-1]); continue
    subprocess.run(apply_cmd, shell=True, stdout=subprocess.DEVNULL)
    try:
        res = []
        for p in props[:2]:
            t0 = time.time()
            r = subprocess.run("cd %s && mkdir -p .work/seed_evidence && VERIF_EVIDENCE_DIR=%s/.work/seed_evidence python3 bin/check.py %s --tier quick" % (V, V, p),
                               shell=True, stdout=subprocess.PIPE, stderr=subprocess.STDOUT, text=True)
            res.append("%s:%s(%ds)" % (p, {0: "MISSED", 1: "detected"}.get(r.returncode, "BROKEN"), time.time() - t0))
            if r.returncode == 1:
                break
    finally:
        subprocess.run("git -C /repo checkout -- .", shell=True)
        subprocess.run("rm -rf %s/replays" % V, shell=True)
    rows.append((name, props, " ".join(res))); print(rows[-1], flush=True)
json.dump(rows, open(os.path.join(V, ".work", "seed_regress.json"), "w"), indent=1)
print("still detected: %d / %d" % (sum("detected" in r[2] for r in rows), len(rows)))
