#!/usr/bin/env python3
"""Seeded scenario generators (inputs for the harness).  Matrices are small and
their entries are short dyadic rationals, so that a good share of the scenarios
lies in the exact domain D2 (DESIGN 3); which ones actually do is decided by the
TLA+ trace specification on its own exact execution, not here."""
import random
from fractions import Fraction as Fr

POW2 = [1, -1, 2, -2, 4, -4, 0.5, -0.5]
SMALL = [1, -1, 2, -2, 3, -3, 4, 0.5, -0.5, 1.5, -1.5, 6, 0.25]
CUNITS = [(1, 0), (-1, 0), (0, 1), (0, -1), (2, 0), (0, 2), (0, -2), (0.5, 0), (0, 0.5)]


def hx(x):
    return float(x).hex()


class Gen:
    def __init__(self, seed):
        self.r = random.Random(seed)

    # ------------------------------------------------------------------ patterns
    def pattern(self, m, n, kind=None):
        r = self.r
        kind = kind or r.choice(["dense", "sparse", "sparse", "diag+", "arrow", "band", "block", "zerodiag"])
        P = set()
        if kind == "dense":
            P = {(i, j) for i in range(m) for j in range(n) if r.random() < 0.8}
        elif kind == "sparse":
            d = r.uniform(0.15, 0.5)
            P = {(i, j) for i in range(m) for j in range(n) if r.random() < d}
        elif kind == "diag+":
            P = {(i, j) for i in range(m) for j in range(n) if r.random() < 0.15}
        elif kind == "arrow":
            P = {(i, 0) for i in range(m)} | {(0, j) for j in range(n)}
            if r.random() < 0.5:
                P = {(m - 1 - i, n - 1 - j) for (i, j) in P}
        elif kind == "band":
            w = r.randint(1, 2)
            P = {(i, j) for i in range(m) for j in range(n) if abs(i - j) <= w}
        elif kind == "block":
            b = max(1, n // 2)
            P = {(i, j) for i in range(m) for j in range(n) if (i < b) == (j < b) and r.random() < 0.85}
        elif kind == "zerodiag":
            P = {(i, j) for i in range(m) for j in range(n) if i != j and r.random() < 0.6}
        if kind != "zerodiag":
            P |= {(i, i) for i in range(min(m, n)) if r.random() < 0.9}
        return P

    def ensure_structurally_nonsingular(self, P, n):
        """add a random transversal so the pattern has a perfect matching"""
        perm = list(range(n))
        self.r.shuffle(perm)
        return P | {(perm[j], j) for j in range(n)}

    # ------------------------------------------------------------------ values
    def real_value(self, style):
        r = self.r
        if style == "pow2":
            return r.choice(POW2)
        if style == "small":
            return r.choice(SMALL)
        if style == "int":
            return r.choice([1, -1, 2, -2, 3, -3, 4, -4, 5, 7])
        if style == "float":
            return r.uniform(-1, 1) * 10 ** r.randint(-3, 3)
        raise ValueError(style)

    def value(self, style, cplx):
        r = self.r
        if not cplx:
            return (self.real_value(style), 0.0)
        if style == "pow2":
            return tuple(float(x) for x in r.choice(CUNITS))
        if r.random() < 0.4:
            return (self.real_value(style), 0.0)
        if r.random() < 0.3:
            return (0.0, self.real_value(style))
        return (self.real_value(style), self.real_value(style))

    def matrix(self, m, n, cplx, style=None, kind=None, nonsingular_pattern=True):
        style = style or self.r.choice(["pow2", "pow2", "small", "small", "int"])
        P = self.pattern(m, n, kind)
        if nonsingular_pattern and m == n:
            P = self.ensure_structurally_nonsingular(P, n)
        elif nonsingular_pattern and m > n:
            # tall: full structural column rank (every column matched to a row of its own)
            rows = list(range(m)); self.r.shuffle(rows)
            P = P | {(rows[j], j) for j in range(n)}
        if not P:
            P = {(0, 0)}
        return {(i, j): self.value(style, cplx) for (i, j) in P}, style

    def lu_product(self, n, cplx):
        """A = Pr' * L * U * Pc' with unit-lower L (|l| <= 1, dyadic) and U with power-of-two diagonal:
        partial pivoting then meets power-of-two pivots with high probability (steering towards D2)."""
        r = self.r
        L = [[Fr(0)] * n for _ in range(n)]
        U = [[Fr(0)] * n for _ in range(n)]
        for i in range(n):
            L[i][i] = Fr(1)
            U[i][i] = Fr(r.choice([1, -1, 2, -2, 4, Fr(1, 2), Fr(-1, 2)]))
            for j in range(i):
                if r.random() < 0.45:
                    L[i][j] = Fr(r.choice([1, -1, Fr(1, 2), Fr(-1, 2), Fr(1, 4)]))
            for j in range(i + 1, n):
                if r.random() < 0.45:
                    U[i][j] = Fr(r.choice([1, -1, 2, -2, Fr(1, 2), 3]))
        pr = list(range(n)); pc = list(range(n)); r.shuffle(pr); r.shuffle(pc)
        A = {}
        for i in range(n):
            for j in range(n):
                v = sum(L[i][k] * U[k][j] for k in range(n))
                if v != 0:
                    A[(pr[i], pc[j])] = (float(v), 0.0)
        if cplx:   # multiply rows by units: keeps |.|1 magnitudes and unit pivots
            units = [(1, 0), (0, 1), (-1, 0), (0, -1)]
            rowu = [r.choice(units) for _ in range(n)]
            A = {(i, j): (v[0] * rowu[i][0], v[0] * rowu[i][1]) for (i, j), v in A.items()}
        return A

    # ------------------------------------------------------------------ scenario text
    @staticmethod
    def mat_lines(A, m, n, fmt, cplx):
        """A: dict (i,j)->(re,im).  fmt NC: column storage, NR: row storage"""
        outer = n if fmt == "NC" else m
        ptr = [0]; idx = []; vals = []
        for o in range(outer):
            ents = sorted((i, j) for (i, j) in A if (j if fmt == "NC" else i) == o)
            for (i, j) in ents:
                idx.append(i if fmt == "NC" else j)
                v = A[(i, j)]
                vals.append(hx(v[0]) + ((" " + hx(v[1])) if cplx else ""))
            ptr.append(len(idx))
        return ["mat %s %d %d %d" % (fmt, m, n, len(idx)), " ".join(map(str, ptr)), " ".join(map(str, idx)), " ".join(vals)]

    @staticmethod
    def rhs_lines(B, m, nrhs, ldb, cplx, ldx=None):
        """B: list of columns of (re,im); padding rows get a sentinel; ldx: leading dimension of X (default: ldb)"""
        vals = []
        for k in range(nrhs):
            for i in range(ldb):
                v = B[k][i] if i < m else (77.0, -77.0)
                vals.append(hx(v[0]) + ((" " + hx(v[1])) if cplx else ""))
        return ["rhs %d %d" % (nrhs, ldb) + ("" if ldx is None else " %d" % ldx), " ".join(vals)]

    def tune(self, small=True):
        r = self.r
        if not small:
            return [20, 10, 200, 200, 100, 30, 10]
        panel = r.randint(1, 4); relax = r.randint(1, 6); maxsuper = r.randint(relax, max(relax, 6))
        return [panel, relax, maxsuper, r.randint(1, 4), r.randint(1, 3), r.choice([1, 2, 3, 30]), r.randint(1, 6)]

    def rhs_for(self, A, n, nrhs, cplx, op=0):
        """B = op(A) * Xtrue with small dyadic Xtrue (exact in floating point)"""
        r = self.r
        B = []
        for k in range(nrhs):
            if r.random() < 0.15:
                x = [(0.0, 0.0)] * n
            else:
                x = [(float(r.choice([0, 1, -1, 2, -2, 3, 0.5, -0.5, 4])), float(r.choice([0, 1, -1, 0.5])) if cplx else 0.0) for _ in range(n)]
            b = [[Fr(0), Fr(0)] for _ in range(n)]
            for (i, j), v in A.items():
                vr, vi = Fr(v[0]), Fr(v[1])
                if op == 0:
                    row, col = i, j
                else:
                    row, col = j, i
                    if op == 2:
                        vi = -vi
                xr, xi = Fr(x[col][0]), Fr(x[col][1])
                b[row][0] += vr * xr - vi * xi
                b[row][1] += vr * xi + vi * xr
            B.append([(float(p[0]), float(p[1])) for p in b])
        return B
