#!/usr/bin/env python3
"""seed_eval.py <Cxx> [--name NAME] [--props C01,C02] [--tier quick]
Confirms a seeded change produced by an independent sub-agent (in /tmp/seed_<Cxx>, worktree /tmp/wt_<Cxx>) and runs
the checks against it:
  1. the worktree with the change builds and its 24 ctest tests pass
  2. the demonstration fails with the change and passes on the unchanged tree (/repo with its _build)
  3. the patch is applied to /repo (git apply), the named checks are run, and the patch is undone (git checkout -- .)
  4. everything is stored under /verif/seeded/<name>/ with meta.json"""
import argparse, json, os, shutil, subprocess, sys, time

ap = argparse.ArgumentParser()
ap.add_argument("pid")
ap.add_argument("--name")
ap.add_argument("--props")
ap.add_argument("--tier", default="quick")
ap.add_argument("--skip-confirm", action="store_true")
a = ap.parse_args()
name = a.name or a.pid
seed = "/tmp/seed_" + a.pid
wt = "/tmp/wt_" + a.pid
props = (a.props or a.pid).split(",")
out = os.path.join("/verif/seeded", name)
os.makedirs(out, exist_ok=True)


def sh(cmd, **kw):
    return subprocess.run(cmd, shell=True, stdout=subprocess.PIPE, stderr=subprocess.STDOUT, text=True, **kw)


meta = {"property": a.pid, "name": name, "ran": []}
if a.skip_confirm and os.path.exists(os.path.join(out, "meta.json")):
    old = json.load(open(os.path.join(out, "meta.json")))
    old["history"] = old.get("history", []) + [{"ran": old.get("ran", []), "detected_by": old.get("detected_by", [])}]
    old["ran"] = []
    meta = old
patch = os.path.join(seed, "patch.diff") if os.path.exists(os.path.join(seed, "patch.diff")) else os.path.join(out, "patch.diff")
# keep only source changes
# hook lines added to /repo after a change was stored can sit inside the context of its patch: fall back to patch(1) with fuzz
APPLY = "git -C /repo apply %s"
r = sh("git -C /repo apply --check %s" % patch)
if r.returncode != 0:
    r = sh("patch -p1 -F3 --dry-run --no-backup-if-mismatch -r - -d /repo < %s" % patch)
    if r.returncode != 0:
        print("patch does not apply to /repo:", r.stdout); sys.exit(2)
    APPLY = "patch -p1 -F3 --no-backup-if-mismatch -r - -d /repo < %s"
if not a.skip_confirm:
    r = sh("cd %s && cmake --build _build -j8 >/dev/null 2>&1; ctest --test-dir _build -j8 --timeout 900 2>&1 | grep 'tests passed'" % wt, timeout=1800)
    meta["tests_with_change"] = r.stdout.strip()
    print("tests with change:", r.stdout.strip())
    r1 = sh("cd %s && sh ./build_and_run.sh %s" % (seed, wt), timeout=1800)
    r0 = sh("cd %s && sh ./build_and_run.sh /repo" % seed, timeout=1800)
    meta["demo_with_change_exit"] = r1.returncode
    meta["demo_without_change_exit"] = r0.returncode
    meta["demo_with_change_tail"] = r1.stdout[-600:]
    print("demo with change: exit %d; without: exit %d" % (r1.returncode, r0.returncode))
    if not (r1.returncode != 0 and r0.returncode == 0 and "100% tests passed" in meta["tests_with_change"]):
        print("NOT CONFIRMED"); meta["confirmed"] = False
    else:
        meta["confirmed"] = True
for f in ("patch.diff", "demo.c", "build_and_run.sh", "notes.md"):
    if os.path.exists(os.path.join(seed, f)):
        shutil.copy(os.path.join(seed, f), out)
# run the checks against the change
sh(APPLY % patch)
try:
    for p in props:
        t0 = time.time()
        r = sh("cd /verif && mkdir -p .work/seed_evidence && VERIF_EVIDENCE_DIR=/verif/.work/seed_evidence python3 bin/check.py %s --tier %s" % (p, a.tier), timeout=3000)
        lines = [l for l in r.stdout.splitlines() if l.startswith("VIOLATION") or l.startswith("CHECK-BROKEN") or l.startswith(p + " ")]
        keys = sorted({l.split("(")[-1].rstrip(")") for l in lines if l.startswith("VIOLATION")})
        meta["ran"].append({"check": p, "tier": a.tier, "exit": r.returncode, "violation_keys": keys[:12], "summary": [l for l in lines if l.startswith(p + " ")], "wall_s": round(time.time() - t0)})
        print(p, "exit", r.returncode, keys[:6])
finally:
    sh("git -C /repo checkout -- .")
    sh("rm -rf /verif/replays")
meta["detected_by"] = [x["check"] for x in meta["ran"] if x["exit"] == 1]
try:
    meta["needs"] = json.load(open("/verif/seeded/needs.json")).get(name, meta.get("needs", ""))
except Exception:
    pass
meta["base_property"] = a.pid[:3]
json.dump(meta, open(os.path.join(out, "meta.json"), "w"), indent=1)
print("stored in", out, "detected by", meta["detected_by"])
