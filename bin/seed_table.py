#!/usr/bin/env python3
"""Prints the markdown table of seeded changes (seeded/*/meta.json): what each needs to manifest and which checks caught it."""
import glob, json, os
rows = []
for m in sorted(glob.glob(os.path.join(os.path.dirname(os.path.dirname(os.path.abspath(__file__))), "seeded", "*", "meta.json"))):
    d = json.load(open(m))
    keys = sorted({k.split("@")[0] for r in d.get("ran", []) for k in r.get("violation_keys", [])})
    missed_before = [h for h in d.get("history", []) if not h.get("detected_by")]
    rows.append("| %s | %s | %s | %s | %s |" % (d["name"], d.get("needs", d.get("what", ""))[:160].replace("|", "/"), ", ".join(d.get("detected_by", [])) or "MISSED",
                                            ", ".join(keys[:4]), "missed at first; caught after strengthening" if missed_before and d.get("detected_by") else ""))
print("| seeded change | needs, to manifest | caught by (quick) | clauses reported | note |\n|---|---|---|---|---|")
print("\n".join(rows))
