#!/usr/bin/env python3
"""optcov.py [run-dir ...]  -- input-space audit of the scenario scripts a check executed (.work/run_*/<ty>_NN.txt).

For every scenario it extracts the features the properties quantify over (type, storage, shape, nrhs, leading dimensions,
every option value, tuning, workspace mode, the call sequence) and prints per family the value histogram of each feature
and the pairs (feature=value, feature=value) of selected features that never occur together.  It judges nothing; it is the
tool used to find the holes that the seeded changes of DESIGN 12.4 keep pointing at ("option values nobody generated")."""
import collections, glob, itertools, json, os, re, sys

WORK = os.path.join(os.path.dirname(os.path.dirname(os.path.abspath(__file__))), ".work")
PAIR_FEATURES = ["ty", "fmt", "Trans", "Equil", "Fact", "ColPerm", "Sym", "IterRefine", "work", "nrhs", "ldpad", "u", "fn"]


def family_of(sid):
    p = sid.split("-")
    return p[1] if len(p) > 1 else sid


def features(sid, lines):
    f = collections.defaultdict(set)
    f["ty"].add(sid.rsplit("-", 1)[-1])
    for ln in lines:
        w = ln.split()
        if not w:
            continue
        if w[0] == "mat":
            f["fmt"].add(w[1]); m, n = int(w[2]), int(w[3])
            f["shape"].add("square" if m == n else "tall" if m > n else "wide")
            f["n"].add("1" if n == 1 else "2-4" if n <= 4 else "5-8" if n <= 8 else "9-16" if n <= 16 else "17+")
            f["_n"] = {n}
        elif w[0] == "rhs":
            nrhs, ldb = int(w[1]), int(w[2]); ldx = int(w[3]) if len(w) > 3 and int(w[3]) >= 0 else ldb
            n_ = min(f.get("_n", {ldb}))
            f["nrhs"].add(str(min(nrhs, 3)) + ("+" if nrhs > 3 else ""))
            f["ldpad"].add(("0" if ldb == n_ else "+") + ("" if ldx == ldb else "x"))
        elif w[0] == "opt" and len(w) >= 3:
            v = w[2]
            if w[1] == "u":
                try:
                    x = float.fromhex(v); v = "0" if x == 0 else "1" if x == 1 else "(0,1)"
                except ValueError:
                    pass
            f[w[1]].add(v)
        elif w[0] == "tune":
            t = list(map(int, w[1:8]))
            f["panel"].add(str(min(t[0], 4))); f["relax"].add("1" if t[1] == 1 else "2-3" if t[1] <= 3 else "4+")
            f["maxsuper"].add("1" if t[2] == 1 else "2-3" if t[2] <= 3 else "4+"); f["fill"].add("1" if t[5] == 1 else "2-3" if t[5] <= 3 else "4+")
        elif w[0] == "work":
            lw = int(w[1]); f["work"].add("query" if lw == -1 else "user%s" % ("+4" if len(w) > 2 and w[2] not in ("0",) else ""))
        elif w[0] == "nowork":
            f["work"].add("system")
        elif w[0] == "call":
            f["fn"].add(w[1] + ("." + w[2] if w[1] == "screen" and len(w) > 2 else ""))
        elif w[0] == "failalloc":
            f["fail"].add("yes")
        elif w[0] in ("seteq", "poisonscale", "corrupt", "mutate"):
            f[w[0]].add(w[1] if len(w) > 1 else "yes")
    f.pop("_n", None)
    return f


def main():
    dirs = sys.argv[1:] or sorted(glob.glob(os.path.join(WORK, "run_*")))
    fam_feat = collections.defaultdict(lambda: collections.defaultdict(collections.Counter))
    fam_pairs = collections.defaultdict(collections.Counter)
    fam_n = collections.Counter()
    for d in dirs:
        if d.endswith("_rerun"):
            continue
        for fn in glob.glob(os.path.join(d, "*_[0-9][0-9].txt")):
            sid, cur = None, []
            for ln in open(fn, errors="replace"):
                ln = ln.rstrip("\n")
                if ln.startswith("begin "):
                    sid, cur = ln.split()[1], []
                elif ln == "end" and sid:
                    fam = os.path.basename(d)[4:] + ":" + family_of(sid)
                    ft = features(sid, cur)
                    fam_n[fam] += 1
                    for k, vs in ft.items():
                        for v in vs:
                            fam_feat[fam][k][v] += 1
                    items = sorted((k, v) for k in PAIR_FEATURES for v in ft.get(k, ()))
                    for a, b in itertools.combinations(items, 2):
                        if a[0] != b[0]:
                            fam_pairs[fam][(a, b)] += 1
                    sid = None
                elif sid:
                    cur.append(ln)
    out = {}
    for fam in sorted(fam_n):
        print("== %s  (%d scenarios)" % (fam, fam_n[fam]))
        for k in sorted(fam_feat[fam]):
            c = fam_feat[fam][k]
            if len(c) > 14:
                print("   %-12s %d distinct values" % (k, len(c)))
            else:
                print("   %-12s %s" % (k, "  ".join("%s:%d" % kv for kv in sorted(c.items()))))
        # pairs of values that each occur but never together
        vals = {(k, v) for k in PAIR_FEATURES for v in fam_feat[fam].get(k, ())}
        missing = [(a, b) for a, b in itertools.combinations(sorted(vals), 2) if a[0] != b[0] and fam_pairs[fam][(a, b)] == 0]
        if missing:
            print("   never together (%d pairs): %s" % (len(missing), "; ".join("%s=%s & %s=%s" % (a + b) for a, b in missing[:25])))
        out[fam] = {"scenarios": fam_n[fam], "missing_pairs": len(missing)}
    return 0


if __name__ == "__main__":
    sys.exit(main())
