#!/usr/bin/env python3
"""Shared machinery of the checks: build, harness execution, TLC runs (model
checking, generation, trace validation), verdict collection, arbitration,
known findings, replay bundles, evidence files."""
import json, os, re, subprocess, sys, time, shutil, hashlib, glob, random
from concurrent.futures import ThreadPoolExecutor

VERIF = os.path.dirname(os.path.dirname(os.path.abspath(__file__)))
SPEC = os.path.join(VERIF, "spec")
WORK = os.environ.get("VERIF_WORK") or os.path.join(VERIF, ".work")      # scratch; a second concurrent run of the same check needs its own
REPLAYS = os.environ.get("VERIF_REPLAYS") or os.path.join(VERIF, "replays")
EVID = os.environ.get("VERIF_EVIDENCE_DIR") or os.path.join(VERIF, "evidence")   # seed_eval.py redirects runs against mutated code
sys.path.insert(0, os.path.join(VERIF, "bin"))
import vbuild  # noqa: E402
import ratcheck  # noqa: E402

TLA_JAR = "/opt/veriftools/tla/tla2tools.jar"
COMMUNITY = "/opt/veriftools/tla/CommunityModules-deps.jar"
NCPU = 16


class Broken(Exception):
    """the check itself is broken (infrastructure), never a property verdict"""


def tlc_classpath():
    return TLA_JAR + ":" + COMMUNITY


def workdir(name):
    d = os.path.join(WORK, name)
    shutil.rmtree(d, ignore_errors=True)
    os.makedirs(d)
    return d


# ----------------------------------------------------------------------------- TLC
def run_tlc(module, cfg, metadir, env=None, workers=1, extra=None, timeout=1800, heap="2g", simulate=None, depth=None, seed=None, coverage=False):
    """Runs TLC; returns (returncode, stdout).  module/cfg are paths (cfg may live anywhere)."""
    cmd = ["java", "-XX:+UseParallelGC", "-Xss64m", "-Xmx" + heap, "-cp", tlc_classpath(), "tlc2.TLC", "-workers", str(workers),
           "-metadir", metadir, "-config", cfg]
    if simulate is not None:
        cmd += ["-simulate", "num=%d" % simulate]
    if depth is not None:
        cmd += ["-depth", str(depth)]
    if seed is not None:
        cmd += ["-seed", str(seed)]
    if coverage:
        cmd += ["-coverage", "1"]
    if extra:
        cmd += extra
    cmd.append(module)
    e = dict(os.environ)
    if env:
        e.update(env)
    try:
        r = subprocess.run(cmd, cwd=SPEC, env=e, stdout=subprocess.PIPE, stderr=subprocess.STDOUT, text=True, timeout=timeout)
    except subprocess.TimeoutExpired as ex:
        raise Broken("TLC timeout on %s (%s)" % (module, cfg))
    shutil.rmtree(metadir, ignore_errors=True)
    for f in glob.glob(os.path.join(SPEC, "*_TTrace_*")):
        try:
            os.remove(f)
        except OSError:
            pass
    return r.returncode, r.stdout


def tlc_stats(out):
    """states generated / distinct / depth from a TLC log"""
    st = {"generated": 0, "distinct": 0, "depth": 0}
    m = re.findall(r"(\d+) states generated, (\d+) distinct states found", out)
    if m:
        st["generated"], st["distinct"] = int(m[-1][0]), int(m[-1][1])
    m = re.findall(r"depth of the complete state graph search is (\d+)", out)
    if m:
        st["depth"] = int(m[-1])
    return st


def tlc_coverage(out):
    """per-action 'taken:generated' from -coverage 1 output:  <Action line ..>: distinct:generated"""
    cov = {}
    for m in re.finditer(r"^<(\w+) line \d+, col \d+ to line \d+, col \d+ of module (\w+)>: (\d+):(\d+)", out, re.M):
        cov[m.group(2) + "!" + m.group(1)] = [int(m.group(3)), int(m.group(4))]
    return cov


def model_check(name, module, cfg, workers=NCPU, heap="8g", timeout=3000, coverage=True, env=None):
    """Exhaustive TLC run of a model-checking configuration.  Returns dict with stats; raises Broken on
    infrastructure failure.  A genuine invariant violation of the *model* is returned in ['violation']."""
    md = workdir("mc_" + name)
    t0 = time.time()
    rc, out = run_tlc(os.path.join(SPEC, module), os.path.join(SPEC, cfg), md, workers=workers, heap=heap, timeout=timeout, coverage=coverage, env=env)
    st = tlc_stats(out)
    res = {"name": name, "module": module, "cfg": cfg, "states": st["generated"], "distinct": st["distinct"], "depth": st["depth"],
           "wall_s": round(time.time() - t0, 1), "coverage": tlc_coverage(out) if coverage else {}}
    if rc == 0 and "Model checking completed. No error has been found." in out:
        res["ok"] = True
        return res
    if rc in (12, 13) or "Invariant" in out and "is violated" in out or "Temporal properties were violated" in out:
        m = re.search(r"Invariant (\w+) is violated", out)
        res["ok"] = False
        res["violation"] = m.group(1) if m else "temporal/other"
        res["log_tail"] = out[-6000:]
        return res
    raise Broken("TLC failed on %s/%s (rc=%d):\n%s" % (module, cfg, rc, out[-3000:]))


def tlc_generate(name, module, cfg, env=None, simulate=None, depth=None, seed=None, workers=1, timeout=1800, heap="4g"):
    """Runs a generator configuration; returns the JSON objects TLC printed with PrintT(ToJson(..))."""
    md = workdir("gen_" + name)
    rc, out = run_tlc(os.path.join(SPEC, module), os.path.join(SPEC, cfg), md, env=env, workers=workers, simulate=simulate, depth=depth, seed=seed, timeout=timeout, heap=heap)
    objs = printed_json(out)
    if rc != 0 and not objs:
        raise Broken("TLC generator %s failed (rc=%d):\n%s" % (name, rc, out[-3000:]))
    return objs, tlc_stats(out), out


def printed_json(out):
    objs = []
    for line in out.splitlines():
        if line.startswith('"{') or line.startswith('"['):
            try:
                objs.append(json.loads(json.loads(line)))
            except Exception:
                pass
    return objs


# ----------------------------------------------------------------------------- harness
def write_script(path, scenarios):
    with open(path, "w") as fh:
        for s in scenarios:
            fh.write("begin %s\n" % s["id"])
            for ln in s["lines"]:
                fh.write(ln + "\n")
            fh.write("end\n")


def run_harness(builddir, ty, script, trace, timeout=20, env=None, exe=None, nofork=False, wrapper=None, logfile=None):
    exe = exe or os.path.join(builddir, "sluh_" + ty)
    cmd = (wrapper or []) + [exe] + (["--nofork"] if nofork else []) + ["--timeout", str(timeout), script, trace]
    e = dict(os.environ)
    e["OPENBLAS_NUM_THREADS"] = "1"
    e["OMP_NUM_THREADS"] = "1"
    if env:
        e.update(env)
        for k in ("ASAN_OPTIONS", "UBSAN_OPTIONS", "TSAN_OPTIONS"):
            if k in e:
                e[k] = e[k] + ":log_path=" + trace + ".san"
    lf = open(logfile, "w") if logfile else subprocess.DEVNULL
    try:
        r = subprocess.run(cmd, env=e, stdout=lf, stderr=subprocess.STDOUT, timeout=3600)
    except subprocess.TimeoutExpired:
        raise Broken("harness run exceeded one hour: %s" % script)
    finally:
        if logfile:
            lf.close()
    if r.returncode != 0:
        raise Broken("harness failed (rc=%d) on %s; see %s" % (r.returncode, script, logfile))


def validate_trace(trace, module="SluTrace.tla", cfg="SluTrace.cfg", tag="tv", env=None, heap="2g"):
    """TLC trace validation of one ndjson file.  Returns (verdict list, stats)."""
    md = workdir("md_" + tag)
    # a child that died while writing leaves an incomplete line (the parent starts its Done line on a fresh one): only
    # complete JSON lines are events
    raw = open(trace, errors="replace").read().split("\n")
    good = []
    for ln in raw:
        if not ln.strip():
            continue
        try:
            json.loads(ln)
            good.append(ln)
        except ValueError:
            pass
    if len(good) != len([x for x in raw if x != ""]) or any(not x.strip() for x in raw[:-1]):
        with open(trace, "w") as fh:
            fh.write("".join(g + "\n" for g in good))
    e = {"TRACE": trace}
    if env:
        e.update(env)
    for attempt in range(6):
        rc, out = run_tlc(os.path.join(SPEC, module), os.path.join(SPEC, cfg), md, env=e, workers=1, heap=heap, timeout=3000)
        shutil.rmtree(md, ignore_errors=True)
        verdicts = printed_json(out)
        nlines = sum(1 for _ in open(trace))
        # An output so malformed that the operators of the specification are not defined on it (an index beyond a sequence the
        # library returned shorter than its own header says, ...) makes TLC stop at that line with an evaluation error.  That is
        # a verdict about the scenario, not a failure of the check: the scenario's events are replaced by one Unevaluable event
        # (judged as an abnormal end) and the rest of the trace is validated as usual.
        if rc != 0 and len(verdicts) < nlines and ("TLC threw an unexpected exception" in out or "evaluating the nested" in out) and attempt < 5:
            lines = open(trace).read().split("\n")
            lines = [x for x in lines if x != ""]
            bad_i = len(verdicts)                    # 0-based index of the line TLC could not evaluate
            sid = None
            for i in range(bad_i, -1, -1):
                try:
                    ev = json.loads(lines[i])
                except ValueError:
                    continue
                if ev.get("id"):
                    sid = ev["id"]; break
            if sid is None:
                break
            lo = bad_i
            while lo > 0 and not (('"e":"Reset"' in lines[lo]) and ('"id":"%s"' % sid) in lines[lo]):
                lo -= 1
            hi = bad_i + 1
            while hi < len(lines) and '"e":"Reset"' not in lines[hi]:
                hi += 1
            kind = "?"
            try:
                evb = json.loads(lines[bad_i]); kind = str(evb.get("fn") or evb.get("e"))
            except ValueError:
                pass
            repl = [lines[lo]] if '"e":"Reset"' in lines[lo] else []
            repl.append(json.dumps({"e": "Unevaluable", "id": sid, "at": kind}, separators=(",", ":")))
            shutil.copy(trace, trace + ".unevaluable.%d" % attempt)
            with open(trace, "w") as fh:
                fh.write("".join(x + "\n" for x in lines[:lo] + repl + lines[hi:]))
            continue
        break
    if rc != 0 or "No error has been found" not in out or len(verdicts) != nlines:
        keep = os.path.join(WORK, "failed_" + tag)
        shutil.copy(trace, keep + ".ndjson")
        with open(keep + ".tlc.txt", "w") as fh:
            fh.write(out)
        raise Broken("trace validation failed on %s (rc=%d, %d verdicts for %d lines):\n%s" % (trace, rc, len(verdicts), nlines, out[-3000:]))
    return verdicts, tlc_stats(out)


def execute(tag, builddir, scen_by_type, events=0, nchunks=NCPU, harness_env=None, timeout=20, module="SluTrace.tla", cfg="SluTrace.cfg", wrapper=None, tv_env=None, per_chunk=40):
    """Runs scenarios (dict type -> list of scenario dicts) through the harness in parallel chunks and validates
    every trace with TLC.  Returns list of results: dict(trace, verdicts, stats, ty)."""
    wd = workdir("run_" + tag)
    jobs = []
    for ty, scens in scen_by_type.items():
        if not scens:
            continue
        k = max(1, min(nchunks, (len(scens) + per_chunk - 1) // per_chunk))
        for c in range(k):
            part = scens[c::k]
            if part:
                jobs.append((ty, c, part))

    def one(job):
        ty, c, part = job
        base = os.path.join(wd, "%s_%02d" % (ty, c))
        write_script(base + ".txt", part)
        if os.path.exists(base + ".ndjson"):
            os.remove(base + ".ndjson")
        run_harness(builddir, ty, base + ".txt", base + ".ndjson", timeout=timeout, env=harness_env, wrapper=wrapper, logfile=base + ".log")
        verdicts, st = validate_trace(base + ".ndjson", module=module, cfg=cfg, tag="%s_%s_%02d" % (tag, ty, c), env=tv_env)
        return {"ty": ty, "script": base + ".txt", "trace": base + ".ndjson", "log": base + ".log", "verdicts": verdicts, "stats": st, "scen": {s["id"]: s for s in part}}

    with ThreadPoolExecutor(max_workers=NCPU) as ex:
        return list(ex.map(one, jobs))


# ----------------------------------------------------------------------------- findings / replays
def load_known():
    p = os.path.join(VERIF, "known_findings.jsonl")
    out = []
    if os.path.exists(p):
        for line in open(p):
            line = line.strip()
            if line and not line.startswith("#"):
                out.append(json.loads(line))
    return out


def family_of(sid):
    """scenario ids are <prop>-<family>-<serial>[-<type>]"""
    parts = sid.split("-")
    return parts[1] if len(parts) > 1 else "?"


def make_replay(prop, key, scenario, trace_lines, ty, note):
    dig = hashlib.sha1((key + json.dumps(scenario["lines"])).encode()).hexdigest()[:12]
    d = os.path.join(REPLAYS, prop, dig)
    os.makedirs(d, exist_ok=True)
    write_script(os.path.join(d, "scenario.txt"), [scenario])
    with open(os.path.join(d, "trace.ndjson"), "w") as fh:
        fh.writelines(trace_lines)
    with open(os.path.join(d, "README"), "w") as fh:
        fh.write("property %s\nkey %s\ntype %s\n%s\nreplay: python3 /verif/bin/check.py %s --replay %s\n" % (prop, key, ty, note, prop, d))
    with open(os.path.join(d, "meta.json"), "w") as fh:
        json.dump({"property": prop, "key": key, "ty": ty, "note": note}, fh)
    return d


def write_evidence(prop, tier, seed, level, coverage, wall, violations, assumptions):
    os.makedirs(EVID, exist_ok=True)
    ev = {"property_id": prop, "tier": tier, "seed": int(seed), "level": level, "coverage": coverage,
          "assumptions": assumptions, "wall_s": round(wall, 1), "violations": int(violations)}
    tmp = os.path.join(EVID, prop + ".json.tmp")
    with open(tmp, "w") as fh:
        json.dump(ev, fh, indent=1, default=str)
    os.replace(tmp, os.path.join(EVID, prop + ".json"))


def hexf(x):
    return float(x).hex()


def execute_mt(tag, builddir, ty, groups, free=False, env=None, tv_env=None, nchunks=NCPU):
    """groups: list of dict(scen=[scenario,...], schedule=[..], quantum=int).  Each group is one sluh_mt process (its
    scenarios run first alone, then concurrently); traces of a chunk of groups are concatenated and validated by TLC.
    Returns results like execute(); results carry 'san' = list of (group scenario ids, sanitizer log text)."""
    wd = workdir("run_" + tag)
    exe = os.path.join(builddir, "sluh_mt_" + ty)
    k = max(1, min(nchunks, (len(groups) + 19) // 20))
    chunks = [groups[c::k] for c in range(k)]

    def one(ci):
        part = chunks[ci]
        base = os.path.join(wd, "%s_%02d" % (ty, ci))
        scen = {}
        san = []
        with open(base + ".ndjson", "w") as out:
            for gi, grp in enumerate(part):
                pref = "%s.g%04d" % (base, gi)
                write_script(pref + ".txt", grp["scen"])
                cmd = [exe] + (["--free"] if free else ["--schedule", ",".join(map(str, grp["schedule"])), "--quantum", str(grp["quantum"])]) + [pref + ".txt", pref]
                e = dict(os.environ); e["OPENBLAS_NUM_THREADS"] = "1"; e["OMP_NUM_THREADS"] = "1"
                if env:
                    e.update(env)
                    for kk in ("TSAN_OPTIONS",):
                        if kk in e:
                            e[kk] = e[kk] + ":log_path=" + pref + ".san"
                try:
                    r = subprocess.run(cmd, env=e, stdout=subprocess.DEVNULL, stderr=subprocess.DEVNULL, timeout=120)
                    rc = r.returncode
                except subprocess.TimeoutExpired:
                    rc = -14
                for s in grp["scen"]:
                    scen[s["id"]] = s
                files = [pref + ".solo.ndjson"] + [pref + ".%d.ndjson" % t for t in range(len(grp["scen"]))]
                for f in files:
                    if os.path.exists(f):
                        txt = open(f).read()
                        # a thread that died leaves an unterminated scenario: keep complete lines only
                        out.write("".join(ln + "\n" for ln in txt.split("\n") if ln.endswith("}")))
                if rc != 0:
                    status = "sanitizer" if rc == 96 else ("timeout" if rc == -14 else "crash")
                    out.write(json.dumps({"e": "Done", "id": grp["scen"][0]["id"], "status": status, "sig": -rc if rc < 0 else 0, "code": rc, "pid": 0}) + "\n")
                logs = "".join(open(f, errors="replace").read() for f in glob.glob(pref + ".san*"))
                if logs:
                    san.append(([s["id"] for s in grp["scen"]], logs))
        verdicts, st = validate_trace(base + ".ndjson", tag="%s_%s_%02d" % (tag, ty, ci), env=tv_env)
        return {"ty": ty, "script": base + ".txt", "trace": base + ".ndjson", "log": base + ".log", "verdicts": verdicts, "stats": st, "scen": scen, "san": san}

    with ThreadPoolExecutor(max_workers=NCPU) as ex:
        return list(ex.map(one, range(len(chunks))))
