#!/usr/bin/env python3
"""Rational side evaluator (DESIGN 2.2, rule S2).

Evaluates, in exact rational arithmetic on the doubles/floats recorded in a
trace line, the *inequalities* the properties state (the forms containing
machine epsilon, which TLC's 32-bit integers cannot evaluate):

  FactorBound    |Pr*F*Pc - L*U| <= c*n*eps*|L||U|  entrywise, multipliers
                 bounded by 1/u, diagonal preferred (decided from the recorded
                 multipliers: candidate_i = l_ij * u_jj)
  ResidualBound  |B - op(A) X| <= c*n*eps*(|L||U| permuted back)|X| + n*eps*|B|
  TrueBerr / TrueRcond (C13 / C12)

It is used (a) to arbitrate an exact-equality mismatch reported by TLC and
(b) for the floating-point slice (inputs outside the exact domain D2).
Each predicate is a transliteration of the TLA+ operator of the same name.
"""
import json, sys
from fractions import Fraction as Fr

EPS = {"d": Fr(1, 2 ** 52), "z": Fr(1, 2 ** 52), "s": Fr(1, 2 ** 23), "c": Fr(1, 2 ** 23)}
CPLX = {"d": False, "s": False, "c": True, "z": True}


class NotFinite(Exception):
    pass


def tok(t):
    """decode one real token"""
    if len(t) == 2:
        num, ld = t
        return Fr(num) * (Fr(2) ** (-ld))
    sign, hi, mid, lo, ld = t
    if ld in (99999, 88888):
        raise NotFinite()
    return Fr(sign * ((hi << 40) | (mid << 20) | lo)) * (Fr(2) ** (-ld))


def val(t, cplx):
    """-> (re, im) as Fractions"""
    if cplx:
        return (tok(t[0]), tok(t[1]))
    return (tok(t), Fr(0))


def cabs1(z):
    return abs(z[0]) + abs(z[1])


def cmul(a, b):
    if a[1] == 0 and b[1] == 0:
        return (a[0] * b[0], Fr(0))
    return (a[0] * b[0] - a[1] * b[1], a[0] * b[1] + a[1] * b[0])


def cadd(a, b):
    return (a[0] + b[0], a[1] + b[1])


def csub(a, b):
    return (a[0] - b[0], a[1] - b[1])


def conj(a):
    return (a[0], -a[1])


Z = (Fr(0), Fr(0))
ONE = (Fr(1), Fr(0))


def dense_from_triplets(ent, m, n, cplx, transpose=False):
    A = [[Z] * n for _ in range(m)]
    for r, c, t in ent:
        if transpose:
            A[c][r] = val(t, cplx)
        else:
            A[r][c] = val(t, cplx)
    return A


def dense_LU(ev):
    """abstraction functions DenseL / DenseU of SluStore.tla"""
    cplx = CPLX[ev["ty"]]
    L, U = ev["L"], ev["U"]
    m, n = L["nrow"], L["ncol"]
    DL = [[Z] * n for _ in range(m)]
    DU = [[Z] * n for _ in range(n)]
    xsup, supno, xlsub, xlusup, lsub, lusup = L["sup_to_col"], L["col_to_sup"], L["rowind_colptr"], L["nzval_colptr"], L["rowind"], L["nzval"]
    for j in range(n):
        s = supno[j]
        f = xsup[s]
        p0 = xlsub[f]
        nsupr = xlsub[f + 1] - p0
        for k in range(nsupr):
            r = lsub[p0 + k]
            v = val(lusup[xlusup[j] + k], cplx)
            if r > j:
                DL[r][j] = v
            else:
                DU[r][j] = v
        if j < m:
            DL[j][j] = ONE
        for q in range(U["colptr"][j], U["colptr"][j + 1]):
            r = U["rowind"][q]
            v = val(U["nzval"][q], cplx)
            if v != Z:
                DU[r][j] = v
    return DL, DU


def absmat_prod(DL, DU, m, n):
    """|L||U| with |.| = |re|+|im| (an upper bound of the modulus)"""
    AL = [[cabs1(DL[i][k]) for k in range(n)] for i in range(m)]
    AU = [[cabs1(DU[k][j]) for j in range(n)] for k in range(n)]
    return [[sum(AL[i][k] * AU[k][j] for k in range(min(i, j) + 1) if AL[i][k] and AU[k][j]) for j in range(n)] for i in range(m)]


def factor_bound(ev, F, u, reuse=False, c_real=8, c_cplx=32):
    """F: m x n matrix that was factored (list of rows of (re,im)).  Returns list of violated clause names."""
    ty = ev["ty"]
    cplx = CPLX[ty]
    eps = EPS[ty]
    c = c_cplx if cplx else c_real
    m, n = ev["L"]["nrow"], ev["L"]["ncol"]
    pr, pc = ev["perm_r"], ev["perm_c"]
    bad = []
    DL, DU = dense_LU(ev)
    E = absmat_prod(DL, DU, m, n)
    ipc = [0] * n
    for j in range(n):
        ipc[pc[j]] = j
    maxratio = Fr(0)
    for i in range(m):
        for jo in range(n):
            j = pc[jo]
            ii = pr[i]
            s = Z
            for k in range(min(ii, j) + 1):
                if DL[ii][k] != Z and DU[k][j] != Z:
                    s = cadd(s, cmul(DL[ii][k], DU[k][j]))
            d = cabs1(csub(F[i][jo], s))
            b = c * n * eps * E[ii][j]
            if d > b:
                bad.append("C02.factor_bound")
                break
            if b:
                maxratio = max(maxratio, d / b)
        else:
            continue
        break
    # multipliers and diagonal preference from the recorded multipliers
    lim = (Fr(2) if cplx else Fr(1)) / u * (1 + 8 * eps) if u != 0 else None     # u = 0: any nonzero pivot is admissible
    for j in range(n):
        col = [cabs1(DL[i][j]) for i in range(j + 1, m)]
        lmax = max([Fr(1)] + col)
        if lim is not None and lmax > lim:
            bad.append("C02.multiplier_bound")
            break
        if not reuse and not cplx:
            d = ipc[j]               # original row index of "the diagonal" of column j
            if d < m and pr[d] > j:  # it was a candidate and was not chosen
                ld = cabs1(DL[pr[d]][j])
                if ld != 0 and ld >= u * lmax * (1 + 16 * eps):
                    bad.append("C02.diag_preferred")
                    break
    for k in range(n):
        if DU[k][k] == Z:
            bad.append("C02.U_zero_diagonal")
            break
    return bad, float(maxratio), (DL, DU, E)


def residual_bound(ev, opA, X, B, E_back, n, c_real=8, c_cplx=32, extra=None):
    """|B - opA X| <= c n eps E_back |X| + n eps |B| (+ extra_i) for each column; E_back in caller's coordinates."""
    ty = ev["ty"]
    cplx = CPLX[ty]
    eps = EPS[ty]
    c = c_cplx if cplx else c_real
    worst = Fr(0)
    for k in range(len(X)):
        x = X[k]
        b = B[k]
        for i in range(n):
            s = Z
            for j in range(n):
                if opA[i][j] != Z and x[j] != Z:
                    s = cadd(s, cmul(opA[i][j], x[j]))
            r = cabs1(csub(b[i], s))
            bound = c * n * eps * sum(E_back[i][j] * cabs1(x[j]) for j in range(n)) + n * eps * cabs1(b[i])
            if extra is not None:
                bound += extra[k][i]
            if r > bound:
                return ["residual_bound"], None
            if bound:
                worst = max(worst, r / bound)
    return [], float(worst)


def op_matrix(A, n, trans, cplx):
    if trans == 0:
        return A
    if trans == 1 or not cplx:
        return [[A[j][i] for j in range(n)] for i in range(n)]
    return [[conj(A[j][i]) for j in range(n)] for i in range(n)]


def check_gssv(ev):
    ty = ev["ty"]
    cplx = CPLX[ty]
    n = ev["n"]
    tr = ev["fmt"] == "NR"
    F = dense_from_triplets(ev["A0"], n, n, cplx, transpose=tr)
    u = tok(ev["opts"]["u"])
    bad, ratio, (DL, DU, E) = factor_bound(ev, F, u)
    res = {"bad": bad, "factor_ratio": ratio}
    if ev.get("nrhs", 0) > 0 and "B1" in ev:
        A = dense_from_triplets(ev["A0"], n, n, cplx)
        X = [[val(t, cplx) for t in col] for col in ev["B1"]]
        B = [[val(t, cplx) for t in col] for col in ev["B0"]]
        pr, pc = ev["perm_r"], ev["perm_c"]
        # Pr F Pc = L U  =>  |F| ~ Pr' |L||U| Pc' ;  F = A (NC) or A' (NR)
        EF = [[E[pr[i]][pc[j]] for j in range(n)] for i in range(n)]
        Eb = [[EF[j][i] for j in range(n)] for i in range(n)] if tr else EF
        b2, w = residual_bound(ev, A, X, B, Eb, n)
        res["bad"] += ["C01." + x for x in b2]
        res["residual_ratio"] = w
    return res


def check_gstrf(ev):
    ty = ev["ty"]
    cplx = CPLX[ty]
    m, n = ev["m"], ev["n"]
    F = dense_from_triplets(ev["A0"], m, n, cplx)
    u = tok(ev["opts"]["u"])
    bad, ratio, _ = factor_bound(ev, F, u, reuse=(ev["opts"]["Fact"] == 2))
    return {"bad": bad, "factor_ratio": ratio}


def check_gssvx(ev):
    """expert driver: factor bound on the equilibrated matrix that was factored, residual bound for the caller's
    original system op(A0) X = B0 (DESIGN C05, float slice / arbitration)"""
    ty = ev["ty"]
    cplx = CPLX[ty]
    eps = EPS[ty]
    n = ev["n"]
    tr = ev["fmt"] == "NR"
    info = ev["info"]
    res = {"bad": []}
    lw = ev.get("work", {}).get("lwork", 0)
    if lw == -1 or info < 0 or info > n + 1:
        return res
    if 0 < info <= n:
        # singular return: only the reciprocal pivot growth of the leading info columns is defined (C12)
        if ev["fn"] == "gssvx" and "rpg" in ev and "L" in ev and "rowind" in ev["L"] and ev["opts"]["Fact"] != 3:
            try:
                Fent = [[e[0], e[1], v] for e, v in zip(ev["A0"], ev["A1v"])]
                F = dense_from_triplets(Fent, n, n, cplx, transpose=tr)
                DL, DU = dense_LU(ev)
                check_cond_growth_refine(ev, F, DU, res)
            except (ZeroDivisionError, IndexError, KeyError):
                pass
        return res
    fact = ev["opts"]["Fact"]
    ilu = ev["fn"] == "gsisx"
    Fent = [[e[0], e[1], v] for e, v in zip(ev["A0"], ev["A1v"])]
    F = dense_from_triplets(Fent, n, n, cplx, transpose=tr)
    u = tok(ev["opts"]["u"])
    if "L" not in ev or "rowind" not in ev["L"]:
        return res
    if ilu and not (ev["opts"]["DropRule"] == 0 and info == 0):
        # incomplete factors: X must be the solve with the returned factors, i.e. solve the system of the matrix
        # M = Pr' L U Pc' (AA orientation) within the backward-error bound of two triangular solves
        if not (0 <= info <= n + 1) or ev.get("nrhs", 0) == 0 or "X1" not in ev:
            return res
        try:
            DL, DU = dense_LU(ev)
        except Exception:
            return res
        pr, pc = ev["perm_r"], ev["perm_c"]
        if sorted(pr) != list(range(n)) or sorted(pc) != list(range(n)):
            return res
        E = absmat_prod(DL, DU, n, n)
        LUp = [[Z] * n for _ in range(n)]
        for i in range(n):
            for j in range(n):
                s_ = Z
                for k in range(min(i, j) + 1):
                    if DL[i][k] != Z and DU[k][j] != Z:
                        s_ = cadd(s_, cmul(DL[i][k], DU[k][j]))
                LUp[i][j] = s_
        q = ev["equed"]
        R = [tok(t) if q in "RB" else Fr(1) for t in ev["R"]]
        C = [tok(t) if q in "CB" else Fr(1) for t in ev["C"]]
        if any(d <= 0 for d in R + C):
            res["bad"].append("C15.nonpositive_scale"); return res
        # unscaled matrix represented by the factors, caller orientation
        M = [[Z] * n for _ in range(n)]
        EF = [[Fr(0)] * n for _ in range(n)]
        for i in range(n):
            for j in range(n):
                v = LUp[pr[i]][pc[j]]
                M[i][j] = (v[0] / (R[i] * C[j]), v[1] / (R[i] * C[j]))
                EF[i][j] = E[pr[i]][pc[j]]
        if tr:
            M = [[M[j][i] for j in range(n)] for i in range(n)]
        fake = dict(ev); fake["A0"] = []
        trans = ev["opts"]["Trans"]
        opA = op_matrix(M, n, trans, cplx)
        X = [[val(t, cplx) for t in col] for col in ev["X1"]]
        B = [[val(t, cplx) for t in col] for col in ev["B0"]]
        effN = (trans == 0) if not tr else (trans != 0)
        Et = EF if effN else [[EF[j][i] for j in range(n)] for i in range(n)]
        D1, D2 = (R, C) if effN else (C, R)
        c = 32 if cplx else 8
        for k in range(len(X)):
            x = X[k]; b = B[k]
            y = [cabs1(x[j]) / D2[j] for j in range(n)]
            for i in range(n):
                s_ = Z; ax = Fr(0)
                for j in range(n):
                    if opA[i][j] != Z and x[j] != Z:
                        s_ = cadd(s_, cmul(opA[i][j], x[j])); ax += cabs1(opA[i][j]) * cabs1(x[j])
                rr = cabs1(csub(b[i], s_))
                bound = (c * n * eps * sum(Et[i][j] * y[j] for j in range(n)) + n * eps * cabs1(b[i]) * D1[i]) / D1[i]
                bound = bound * (1 + 8 * eps) + 4 * n * eps * ax
                if rr > bound:
                    res["bad"].append("C15.X_is_not_the_preconditioner_solve")
                    return res
        res["ilu_solve_checked"] = True
        return res
    if fact != 3:
        bad, ratio, (DL, DU, E) = factor_bound(ev, F, u, reuse=(fact == 2))
        res["bad"] += bad
        res["factor_ratio"] = ratio
    else:
        DL, DU = dense_LU(ev)
        E = absmat_prod(DL, DU, n, n)
    try:
        check_cond_growth_refine(ev, F, DU, res, DL=DL, E=E)
    except ZeroDivisionError:
        pass
    check_berr(ev, F, res)
    if ev.get("nrhs", 0) > 0 and "X1" in ev and info in (0, n + 1):
        A = dense_from_triplets(ev["A0"], n, n, cplx)
        if fact == 3 and ev["equed"] in "RCB":
            # FACTORED: the caller passes the equilibrated matrix; the system solved is the unscaled one
            Rq = [tok(t) if ev["equed"] in "RB" else Fr(1) for t in ev["R"]]
            Cq = [tok(t) if ev["equed"] in "CB" else Fr(1) for t in ev["C"]]
            for i in range(n):
                for j in range(n):
                    if A[i][j] != Z:
                        d = (Rq[j] * Cq[i]) if tr else (Rq[i] * Cq[j])
                        A[i][j] = (A[i][j][0] / d, A[i][j][1] / d)
        trans = ev["opts"]["Trans"]
        opA = op_matrix(A, n, trans, cplx)
        X = [[val(t, cplx) for t in col] for col in ev["X1"]]
        B = [[val(t, cplx) for t in col] for col in ev["B0"]]
        pr, pc = ev["perm_r"], ev["perm_c"]
        EF = [[E[pr[i]][pc[j]] for j in range(n)] for i in range(n)]
        effN = (trans == 0) if not tr else (trans != 0)      # operation applied to the factored matrix
        Et = EF if effN else [[EF[j][i] for j in range(n)] for i in range(n)]
        q = ev["equed"]
        R = [tok(t) if q in "RB" else Fr(1) for t in ev["R"]]
        C = [tok(t) if q in "CB" else Fr(1) for t in ev["C"]]
        D1, D2 = (R, C) if effN else (C, R)
        if any(d <= 0 for d in D1 + D2):
            res["bad"].append("C05.nonpositive_scale")
            return res
        c = 32 if cplx else 8
        worst = Fr(0)
        for k in range(len(X)):
            x = X[k]
            b = B[k]
            y = [cabs1(x[j]) / D2[j] for j in range(n)]
            for i in range(n):
                s = Z
                ax = Fr(0)
                for j in range(n):
                    if opA[i][j] != Z and x[j] != Z:
                        s = cadd(s, cmul(opA[i][j], x[j]))
                        ax += cabs1(opA[i][j]) * cabs1(x[j])
                r = cabs1(csub(b[i], s))
                bound = (c * n * eps * sum(Et[i][j] * y[j] for j in range(n)) + n * eps * cabs1(b[i]) * D1[i]) / D1[i]
                bound = bound * (1 + 8 * eps) + 4 * n * eps * ax
                if r > bound:
                    res["bad"].append("C05.residual_bound")
                    return res
                if bound:
                    worst = max(worst, r / bound)
        res["residual_ratio"] = float(worst)
    return res


def inverse(M, n):
    """exact inverse of an n x n matrix of (re, im) Fractions by Gauss-Jordan; None if singular"""
    def cdiv(a, b):
        d = b[0] * b[0] + b[1] * b[1]
        return ((a[0] * b[0] + a[1] * b[1]) / d, (a[1] * b[0] - a[0] * b[1]) / d)
    W = [list(M[i]) + [ONE if i == j else Z for j in range(n)] for i in range(n)]
    for c in range(n):
        p = next((r for r in range(c, n) if W[r][c] != Z), None)
        if p is None:
            return None
        W[c], W[p] = W[p], W[c]
        piv = W[c][c]
        W[c] = [cdiv(v, piv) for v in W[c]]
        for r in range(n):
            if r != c and W[r][c] != Z:
                f = W[r][c]
                W[r] = [csub(W[r][k], cmul(f, W[c][k])) for k in range(2 * n)]
    return [row[n:] for row in W]


def cmod(z):
    """modulus as a Fraction (float square root: only used inside a tolerance)"""
    if z[1] == 0:
        return abs(z[0])
    if z[0] == 0:
        return abs(z[1])
    import math
    return Fr(math.hypot(float(z[0]), float(z[1])))


def norm1(M, n, inf=False):
    if inf:
        return max(sum(cmod(M[i][j]) for j in range(n)) for i in range(n))
    return max(sum(cmod(M[i][j]) for i in range(n)) for j in range(n))


def check_cond_growth_refine(ev, F, DU, res, DL=None, E=None):
    """C12 / C13 numeric clauses of an expert-driver line; F = the matrix that was factored (AA orientation)"""
    ty = ev["ty"]; cplx = CPLX[ty]; eps = EPS[ty]; n = ev["n"]; info = ev["info"]
    tr = ev["fmt"] == "NR"; trans = ev["opts"]["Trans"]
    effN = (trans == 0) if not tr else (trans != 0)
    o = ev["opts"]
    if o["Cond"] == 1 and info in (0, n + 1) and "rcond" in ev:
        Finv = inverse(F, n)
        rc = tok(ev["rcond"])
        if Finv is not None:
            true = 1 / (norm1(F, n, inf=not effN) * norm1(Finv, n, inf=not effN))
            res["rcond_true_over_reported"] = float(true / rc) if rc else None
            tol = min(Fr(1, 2), 200 * n * eps / true + Fr(1, 10 ** 6))
            # The estimator sees A only through the computed factors: each of its solves is an exact solve with a matrix
            # F + E', |E'| <= |F - LU| + 4 n eps |L||U| (backward error of the triangular solves), whose inverse norm is at
            # most ||inv(F)|| / (1 - delta), delta = || |inv(F)| |E'| ||.  With an unstable factorization (tiny threshold)
            # delta is not small and the one-sided bound holds only up to that factor.
            if DL is not None and E is not None:
                pr, pc = ev["perm_r"], ev["perm_c"]
                if sorted(pr) == list(range(n)) and sorted(pc) == list(range(n)):
                    Eabs = [[Fr(0)] * n for _ in range(n)]
                    for i in range(n):
                        for jo in range(n):
                            ii, j = pr[i], pc[jo]
                            s_ = Z
                            for k in range(min(ii, j) + 1):
                                if DL[ii][k] != Z and DU[k][j] != Z:
                                    s_ = cadd(s_, cmul(DL[ii][k], DU[k][j]))
                            Eabs[i][jo] = cabs1(csub(F[i][jo], s_)) + 4 * n * eps * E[ii][j]
                    P = [[sum(cabs1(Finv[i][k]) * Eabs[k][j] for k in range(n)) for j in range(n)] for i in range(n)]
                    delta = max(sum(P[i][j] for j in range(n)) for i in range(n)) if not effN else max(sum(P[i][j] for i in range(n)) for j in range(n))
                    res["cond_delta"] = float(delta)
                    tol = tol + 2 * delta
            # below machine epsilon both values only say "singular to working precision" (the solves may overflow)
            if rc < true * (1 - tol) and not (true < eps and rc < eps):
                res["bad"].append("C12.rcond_below_true_value")
        if rc > 1 + 16 * n * eps:
            res["bad"].append("C12.rcond_exceeds_one")
    if ((o["PivotGrowth"] == 1 and info in (0, n + 1)) or (0 < info <= n)) and "rpg" in ev and ev["fn"] == "gssvx":
        pc = ev["perm_c"]
        ncols = n if info in (0, n + 1) else info
        ipc = [0] * n
        for j in range(n):
            ipc[pc[j]] = j
        sml = SAFE[ty][0]
        rpg = 1 / sml
        for j in range(ncols):
            maxa = max([cabs1(F[i][ipc[j]]) for i in range(n)] + [Fr(0)])
            maxu = max([cabs1(DU[i][j]) for i in range(j + 1)] + [Fr(0)])
            rpg = min(rpg, Fr(1) if maxu == 0 else maxa / maxu)
        rep = tok(ev["rpg"])
        if not close(rep, rpg, 4, eps):
            res["bad"].append("C12.growth_factor")
        res["rpg_checked"] = True
    return res


def check_berr(ev, F, res):
    """C13: BERR(j) is the componentwise backward error of the *returned* X(:,j) with respect to the system the
    refinement routine is given (the equilibrated matrix that was factored, B scaled accordingly, X before it is scaled
    back), formula of ?gsrfs evaluated exactly; the routine's own evaluation carries a rounding error of at most
    (nz + 1) eps relative to the denominators."""
    ty = ev["ty"]; cplx = CPLX[ty]; eps = EPS[ty]; n = ev["n"]; info = ev["info"]
    o = ev["opts"]
    if o.get("IterRefine", 0) == 0 or ev["fn"] != "gssvx" or info not in (0, n + 1) or ev.get("nrhs", 0) == 0:
        return
    if "berr" not in ev or "X1" not in ev or "B1" not in ev:
        return
    tr = ev["fmt"] == "NR"; trans = o["Trans"]
    if cplx and tr and trans == 2:
        return                                  # known finding of C05 (DESIGN 9.15): another system is solved
    effN = (trans == 0) if not tr else (trans != 0)
    q = ev["equed"]
    R = [tok(t) if q in "RB" else Fr(1) for t in ev["R"]]
    C = [tok(t) if q in "CB" else Fr(1) for t in ev["C"]]
    if any(d <= 0 for d in R + C):
        return
    if effN:
        opF = F
    elif cplx and trans == 2:
        opF = [[conj(F[j][i]) for j in range(n)] for i in range(n)]
    else:
        opF = [[F[j][i] for j in range(n)] for i in range(n)]
    D = C if effN else R                        # X was multiplied by D on the way out
    sml = SAFE[ty][0]
    safe1 = (n + 1) * sml; safe2 = safe1 / (eps / 2)
    worst = Fr(0)
    for k in range(len(ev["X1"])):
        x = [val(t, cplx) for t in ev["X1"][k]]
        b = [val(t, cplx) for t in ev["B1"][k]]
        xs = [(x[j][0] / D[j], x[j][1] / D[j]) for j in range(n)]
        be = Fr(0)
        for i in range(n):
            s_ = Z; den = cabs1(b[i])
            for j in range(n):
                if opF[i][j] != Z and xs[j] != Z:
                    s_ = cadd(s_, cmul(opF[i][j], xs[j])); den += cabs1(opF[i][j]) * cabs1(xs[j])
            r = cabs1(csub(b[i], s_))
            if den > safe2:
                be = max(be, r / den)
            elif den != 0:
                be = max(be, (r + safe1) / den)
        rep = tok(ev["berr"][k])
        tol = 2 * (n + 6) * eps * (1 + be) + 4 * sml
        worst = max(worst, abs(rep - be) / (eps if eps else 1))
        if abs(rep - be) > tol:
            res["bad"].append("C13.berr_is_not_the_backward_error_of_X")
            break
    res["berr_checked"] = True
    res["berr_dev_in_eps"] = float(worst)


SAFE = {"d": (Fr(2) ** -1022, Fr(2) ** -52), "z": (Fr(2) ** -1022, Fr(2) ** -52), "s": (Fr(2) ** -126, Fr(2) ** -23), "c": (Fr(2) ** -126, Fr(2) ** -23)}


def close(a, b, ulps, eps, tiny=0):
    """equal up to `ulps` units in the last place, or up to the spacing of subnormal numbers (gradual underflow)"""
    return abs(a - b) <= ulps * eps * max(abs(a), abs(b)) + 2 * tiny


def check_equ(ev):
    """C11 rounding slice: the defining properties of the scale factors, ratios and the scaled entries, with a
    tolerance of a few units in the last place (entries with arbitrary mantissas)"""
    ty = ev["ty"]; cplx = CPLX[ty]; eps = EPS[ty]
    sml, prec = SAFE[ty]; big = 1 / sml
    tiny = sml * prec            # spacing of the subnormal numbers
    m, n = ev["m"], ev["n"]
    A = dense_from_triplets(ev["A0"], m, n, cplx)
    mag = [[cabs1(A[i][j]) for j in range(n)] for i in range(m)]
    r0 = [max(mag[i]) if n else Fr(0) for i in range(m)]
    bad = []
    zr = [i for i in range(m) if r0[i] == 0]
    if zr:
        return {"bad": [] if ev["info"] == zr[0] + 1 else ["C11.info"]}
    clamp = lambda x: min(max(x, sml), big)
    R = [tok(t) for t in ev["R"]]
    C = [tok(t) for t in ev["C"]]
    u = 4
    if any(not close(R[i], 1 / clamp(r0[i]), u, eps, tiny) or R[i] <= 0 for i in range(m)):
        bad.append("C11.row_factors")
    c0 = [max(mag[i][j] * R[i] for i in range(m)) for j in range(n)]
    zc = [j for j in range(n) if c0[j] <= tiny]        # products that underflow count as zero
    if zc and ev["info"] == 0 and all(c0[j] > 0 for j in zc):
        zc = []                                          # ... unless rounding kept them (borderline)
    if zc:
        # a column whose scaled maximum lies in (0, tiny] may or may not survive the rounding of the products: the column
        # reported is the first exactly zero one or any such borderline column before it
        hard = [j for j in zc if c0[j] == 0]
        ok = {m + j + 1 for j in zc if not hard or j <= hard[0]}
        return {"bad": bad + ([] if ev["info"] in ok else ["C11.info"])}
    if ev["info"] != 0:
        return {"bad": bad + ["C11.info"]}
    if any(not close(C[j], 1 / clamp(c0[j]), 2 * u, eps, tiny) or C[j] <= 0 for j in range(n)):
        bad.append("C11.col_factors")
    rowcnd = max(min([big] + r0), sml) / min(max(r0), big)
    colcnd = max(min([big] + c0), sml) / min(max(c0), big)
    if not (close(tok(ev["rowcnd"]), rowcnd, u, eps, tiny) and close(tok(ev["colcnd"]), colcnd, 4 * u, eps, tiny) and tok(ev["amax"]) == max(r0)):
        bad.append("C11.ratios")
    small = sml / prec
    rowok = tok(ev["rowcnd"]) >= Fr(1, 10) and small <= max(r0) <= 1 / small
    colok = tok(ev["colcnd"]) >= Fr(1, 10)
    q = ("N" if colok else "C") if rowok else ("R" if colok else "B")
    # a ratio within rounding of the threshold may legitimately fall on either side (rule S3)
    border = abs(rowcnd - Fr(1, 10)) <= 16 * eps or abs(colcnd - Fr(1, 10)) <= 16 * eps
    if ev["equed"] != q and not border:
        bad.append("C11.threshold_rule")
    elif ev["equed"] != q:
        pass
    else:
        for (i, j, t0), t1 in zip(ev["A0"], ev["A1v"]):
            f = (R[i] if q in "RB" else 1) * (C[j] if q in "CB" else 1)
            v0 = val(t0, cplx); v1 = val(t1, cplx)
            for a, b in zip(v0, v1):
                if not close(b, a * f, 4, eps, tiny):
                    bad.append("C11.scaled_entries"); break
            else:
                continue
            break
    return {"bad": bad}


def check_ldperm(ev):
    """C17 rounding slice (arbitrary magnitudes): bijection on nonzeros, optimal product by brute force, scaled entries
    at most one and matched entries one up to rounding"""
    import itertools, math
    ty = ev["ty"]; cplx = CPLX[ty]; n = ev["n"]
    if n > 10:
        return {"bad": []}
    A = {}
    for i, j, t in ev["A0"]:
        v = val(t, cplx); A[(i, j)] = float(cmod(v))
    stored = set(A)
    A = {k: a for k, a in A.items() if a != 0}
    if len(stored) != len(A):
        # explicitly stored zeros: structural singularity is a matter of the stored pattern; when only the stored pattern
        # (not the nonzeros) has a perfect matching nothing is demanded
        def pm(P):
            match = {}
            def aug(j, seen):
                for i in range(n):
                    if (i, j) in P and i not in seen:
                        seen.add(i)
                        if i not in match or aug(match[i], seen):
                            match[i] = j
                            return True
                return False
            return all(aug(j, set()) for j in range(n))
        if pm(stored) and not pm(set(A)):
            return {"bad": []}
        if not pm(stored):
            return {"bad": [] if ev["ret"] != 0 else ["C17.structural_singularity_not_reported"]}
    # maximum of sum log|a(i,q(i))| over perfect matchings: rows in order, subsets of used columns
    NEG = float("-inf")
    best_of = {0: 0.0}
    for i in range(n):
        nxt = {}
        for used, b in best_of.items():
            for j in range(n):
                if not used >> j & 1 and (i, j) in A:
                    w = b + math.log(A[(i, j)])
                    if w > nxt.get(used | 1 << j, NEG):
                        nxt[used | 1 << j] = w
        best_of = nxt
    bad = []
    if not best_of:
        return {"bad": [] if ev["ret"] != 0 else ["C17.structural_singularity_not_reported"]}
    if ev["ret"] != 0:
        return {"bad": ["C17.nonsingular_reported_singular"]}
    p = ev["perm"]
    if sorted(p) != list(range(n)) or any((i, p[i]) not in A for i in range(n)):
        return {"bad": ["C17.not_a_matching_with_nonzero_diagonal"]}
    best = best_of[(1 << n) - 1]
    mine = sum(math.log(A[(i, p[i])]) for i in range(n))
    tolr = 1e-4 if ty in "sc" else 1e-9
    if mine < best - tolr * (1 + abs(best)):
        bad.append("C17.product_not_maximal")
    if ev["job"] == 5:
        u = [float(tok(t)) for t in ev["u"]]; v = [float(tok(t)) for t in ev["v"]]
        for (i, j), a in A.items():
            s = math.exp(u[i] + v[j] + math.log(a))
            if s > 1 + 100 * tolr or (j == p[i] and abs(s - 1) > 100 * tolr):
                bad.append("C17.scaling_not_unit"); break
    return {"bad": bad}


CHECKERS = {"ldperm": check_ldperm, "gssv": check_gssv, "gstrf": check_gstrf, "gssvx": check_gssvx, "gsisx": check_gssvx, "equ": check_equ}


def check_line(ev):
    fn = CHECKERS.get(ev.get("fn"))
    if fn is None:
        return {"bad": [], "skipped": True}
    try:
        return fn(ev)
    except NotFinite:
        return {"bad": ["C01.nonfinite_output"]}
    except (IndexError, KeyError, TypeError, ValueError) as ex:
        # storage too damaged to be interpreted numerically: the structural clauses (TLC) report it
        return {"bad": [], "unreadable": repr(ex)}


def main():
    """ratcheck.py trace.ndjson lines.json  -> prints one JSON verdict per requested line"""
    trace, req = sys.argv[1], json.load(open(sys.argv[2]))
    want = set(req)
    with open(trace) as fh:
        for k, line in enumerate(fh, 1):
            if k in want:
                ev = json.loads(line)
                r = check_line(ev)
                r["line"] = k
                print(json.dumps(r))


if __name__ == "__main__":
    main()
