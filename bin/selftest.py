#!/usr/bin/env python3
"""selftest.py -- demonstrates that the trace specification is bound to what the harness records (DESIGN 4.2):
one real trace is taken from the library, then, one at a time,
  (a) one recorded field is corrupted (a value of X, a row index of L, perm_r, info, BERR, a U value),
  (b) one event is dropped (the Ret line of a call; a refinement event),
and SluTrace must reject every altered trace while accepting the original.  Exit 0 iff that is so."""
import copy, json, os, sys
sys.path.insert(0, os.path.dirname(os.path.abspath(__file__)))
os.environ.setdefault("VERIF_WORK", os.path.join(os.path.dirname(os.path.dirname(os.path.abspath(__file__))), ".work", "selftest"))
import vlib, vbuild, gen
import families as F


def verdict_bad(trace_lines, tag):
    wd = vlib.workdir("st_" + tag)
    p = os.path.join(wd, "t.ndjson")
    open(p, "w").write("".join(trace_lines))
    try:
        v, st = vlib.validate_trace(p, tag="st_" + tag)
    except vlib.Broken as ex:
        return {"TRACE-NOT-CONSUMED"}
    bad = {c for x in v for c in x["bad"]}
    # clauses TLC hands to the rational side evaluator (rule S2), as check.py does
    import ratcheck
    for x in v:
        if x["arb"]:
            r = ratcheck.check_line(json.loads(trace_lines[x["line"] - 1]))
            bad |= set(r["bad"])
    return bad


def main():
    b = vbuild.build("v0")
    g = gen.Gen(4242)
    # an expert-driver call with refinement on an exact-domain system (every numeric clause applies)
    A = g.lu_product(5, False)
    B = g.rhs_for(A, 5, 1, False)
    o = {"default": 0, "ColPerm": 0, "Equil": 0, "u": 1.0, "Trans": 0, "IterRefine": 2, "Cond": 1, "PivotGrowth": 1}
    lines = ["tune 2 1 2 2 2 30 2"] + g.mat_lines(A, 5, 5, "NC", False) + g.rhs_lines(B, 5, 1, 5, False) + F.opt_lines(o) + F.gssvx_block(work=None, events=8) + ["destroy all", "ledger"]
    res = vlib.execute("selftest", b, {"d": [{"id": "ST-gssvx-00000-d", "lines": lines, "n": 5}]})
    tr = open(res[0]["trace"]).read().splitlines(keepends=True)
    base = {c for x in res[0]["verdicts"] for c in x["bad"]}
    ok = True
    print("original trace: %d lines, clauses violated: %s" % (len(tr), sorted(base) or "none"))
    if base:
        ok = False
    k = next(i for i, l in enumerate(tr) if '"e":"Ret"' in l)
    ret = json.loads(tr[k])

    def alt(name, f):
        nonlocal ok
        d = copy.deepcopy(ret); f(d)
        t2 = list(tr); t2[k] = json.dumps(d) + "\n"
        bad = verdict_bad(t2, name)
        print("%-34s -> %s" % (name, sorted(bad)[:4] or "ACCEPTED (binding hole)"))
        if not bad:
            ok = False
    alt("X value changed", lambda d: d["X1"][0].__setitem__(0, [3, 0]))
    alt("L row index changed", lambda d: d["L"]["rowind"].__setitem__(len(d["L"]["rowind"]) - 1, 0))
    alt("perm_r swapped", lambda d: d["perm_r"].__setitem__(slice(0, 2), d["perm_r"][1::-1]))
    alt("info changed", lambda d: d.__setitem__("info", 2))
    alt("BERR changed", lambda d: d["berr"].__setitem__(0, [1, 3]))
    alt("U value changed", lambda d: d["L"]["nzval"].__setitem__(0, [5, 0]))
    alt("B reported modified", lambda d: d["B1"][0].__setitem__(0, [7, 0]))
    # the phases the driver reports (hooks P:Phase, spec/SluDriver.tla) and the tree it hands back
    alt("Solve phase removed", lambda d: d.__setitem__("phases", [p for p in d["phases"] if p != "Solve"]))
    alt("ScaleB phase inserted", lambda d: d["phases"].insert(d["phases"].index("CopyBX"), "ScaleB"))
    alt("Refine phase removed", lambda d: d.__setitem__("phases", [p for p in d["phases"] if p != "Refine"]))
    alt("Equil phase inserted", lambda d: d["phases"].insert(0, "Equil"))
    alt("etree entry changed", lambda d: d["etree"].__setitem__(0, d["etree"][0] + 1 if d["etree"][0] < 4 else 2))
    # dropped events
    t3 = [l for i, l in enumerate(tr) if i != k]
    bad = verdict_bad(t3, "dropret")
    nret = sum(1 for l in t3 if '"e":"Ret"' in l)
    ncall = sum(1 for l in lines if l.startswith("call "))
    guard = nret != ncall          # check.py's vacuity guard: one return event per call of the script
    print("%-34s -> %s" % ("Ret event dropped", sorted(bad)[:4] or ("rejected by the call/return count guard (CHECK-BROKEN)" if guard else "ACCEPTED (binding hole)")))
    ok = ok and (bool(bad) or guard)
    ri = [i for i, l in enumerate(tr) if '"e":"RefineIter"' in l]
    if ri:
        t4 = [l for i, l in enumerate(tr) if i != ri[-1]]
        bad = verdict_bad(t4, "droprefine")
        print("%-34s -> %s" % ("last RefineIter event dropped", sorted(bad)[:4] or "ACCEPTED (no step was taken: nothing to bind)"))
    print("SELFTEST", "PASSED" if ok else "FAILED")
    return 0 if ok else 1


if __name__ == "__main__":
    sys.exit(main())
