#!/usr/bin/env python3
"""Scenario families: lists of harness scenarios (dicts with id and script lines).
Scenario ids are <property>-<family>-<serial>-<type>; the family name is part of
the key under which a finding is recorded, so families are kept fine-grained."""
from gen import Gen, hx

NATURAL, MMD_ATA, MMD_AT_PLUS_A, COLAMD, MY_PERMC = 0, 1, 2, 3, 8
ORDERINGS = [NATURAL, MMD_ATA, MMD_AT_PLUS_A, COLAMD, MY_PERMC]
TYPES = ["d", "s", "z", "c"]


def is_cplx(ty):
    return ty in ("c", "z")


def opt_lines(opts):
    return ["opt %s %s" % (k, (hx(v) if isinstance(v, float) else v)) for k, v in opts.items()]


def lu_scenario(g, sid, ty, n, m=None, fn="gssv", fam_opts=None, A=None, style=None, kind=None, nrhs=None, fmt=None, colperm=None, u=None, sym=None, tune=None, nonsing=True):
    """one factor/solve scenario through ?gssv or ?gstrf"""
    r = g.r
    m = m or n
    cplx = is_cplx(ty)
    if A is None:
        if m == n and r.random() < 0.45:
            A = g.lu_product(n, cplx)
        else:
            A, style = g.matrix(m, n, cplx, style=style, kind=kind, nonsingular_pattern=nonsing)
    fmt = fmt or r.choice(["NC", "NC", "NR"] if fn == "gssv" else ["NC"])
    colperm = r.choice(ORDERINGS) if colperm is None else colperm
    if m != n and colperm in (MMD_AT_PLUS_A,):
        colperm = COLAMD
    u = r.choice([1.0, 1.0, 0.5, 0.25, 0.125, 0.0625]) if u is None else u
    sym = (1 if r.random() < 0.2 else 0) if sym is None else sym
    tune = tune or g.tune()
    lines = ["tune " + " ".join(map(str, tune))]
    lines += g.mat_lines(A, m, n, fmt, cplx)
    opts = {"default": 0, "ColPerm": colperm, "u": float(u), "Sym": sym}
    if fam_opts:
        opts.update(fam_opts)
    lines += opt_lines(opts)
    if colperm == MY_PERMC:
        p = list(range(n)); r.shuffle(p)
        lines.append("permc " + " ".join(map(str, p)))
    if fn == "gssv":
        nrhs = r.choice([0, 1, 1, 2, 3]) if nrhs is None else nrhs
        ldb = n + r.choice([0, 0, 3])
        B = g.rhs_for(A, n, nrhs, cplx)
        lines += g.rhs_lines(B, n, nrhs, max(ldb, 1), cplx)
    lines.append("call " + fn)
    lines.append("destroy all")
    lines.append("ledger")
    return {"id": sid, "lines": lines, "n": n, "m": m}


def split_types(count, tier_types):
    """type d fully, the others a fraction (DESIGN 8)"""
    out = {}
    for ty, frac in tier_types.items():
        out[ty] = max(1, int(count * frac))
    return out


def fam_gssv(g, prop, count, types, nmax=8):
    out = {}
    for ty, k in split_types(count, types).items():
        out[ty] = [lu_scenario(g, "%s-gssv-%05d-%s" % (prop, i, ty), ty, g.r.randint(1, nmax)) for i in range(k)]
    return out


def fam_gstrf(g, prop, count, types, nmax=7):
    """factor routine called directly: square and tall matrices, caller-supplied perm_c"""
    out = {}
    for ty, k in split_types(count, types).items():
        lst = []
        for i in range(k):
            n = g.r.randint(2, nmax)
            tall = g.r.random() < 0.5
            m = n + g.r.randint(1, 3) if tall else n
            lst.append(lu_scenario(g, "%s-%s-%05d-%s" % (prop, "gstrftall" if tall else "gstrf", i, ty), ty, n, m=m, fn="gstrf",
                                   colperm=g.r.choice([NATURAL, MMD_ATA, COLAMD, MY_PERMC])))
        out[ty] = lst
    return out


def fam_tall_n1(g, prop, count, types):
    """m x 1 matrices through ?gstrf (single column: exercises the n = 1 paths of the wrap-up)"""
    out = {}
    for ty, k in split_types(count, types).items():
        lst = []
        for i in range(k):
            m = g.r.randint(1, 6)
            lst.append(lu_scenario(g, "%s-talln1-%05d-%s" % (prop, i, ty), ty, 1, m=m, fn="gstrf", kind="dense", colperm=NATURAL))
        out[ty] = lst
    return out


def singular_matrix(g, n, cplx, mode):
    """exactly singular matrices with small dyadic entries (DESIGN C04)"""
    r = g.r
    A, _ = g.matrix(n, n, cplx, style=r.choice(["pow2", "small"]), kind=r.choice(["dense", "sparse", "band"]))
    if mode == "emptycol":
        for c in r.sample(range(n), r.randint(1, max(1, n // 3))):
            A = {k: v for k, v in A.items() if k[1] != c}
    elif mode == "emptyrow":
        for c in r.sample(range(n), r.randint(1, max(1, n // 3))):
            A = {k: v for k, v in A.items() if k[0] != c}
    elif mode == "hall":
        # k+1 columns confined to the same k rows
        k = r.randint(1, max(1, n - 2))
        rows = r.sample(range(n), k)
        cols = r.sample(range(n), min(n, k + 1))
        A = {key: v for key, v in A.items() if not (key[1] in cols and key[0] not in rows)}
        for c in cols:
            A[(r.choice(rows), c)] = g.value("pow2", cplx)
    elif mode == "dupcol" and n >= 2:
        a, b = r.sample(range(n), 2)
        A = {k: v for k, v in A.items() if k[1] != b}
        s = r.choice([1.0, -1.0, 2.0, 0.5])
        for (i, j), v in list(A.items()):
            if j == a:
                A[(i, b)] = (v[0] * s, v[1] * s)
    elif mode == "duprow" and n >= 2:
        a, b = r.sample(range(n), 2)
        A = {k: v for k, v in A.items() if k[0] != b}
        s = r.choice([1.0, -1.0, 2.0, 0.5])
        for (i, j), v in list(A.items()):
            if i == a:
                A[(b, j)] = (v[0] * s, v[1] * s)
    if not A:
        A = {(0, 0): (0.0, 0.0)} if n == 1 else {(0, n - 1): (1.0, 0.0)}
    return A


def fam_singular(g, prop, count, types, fn="gssv", nmax=7):
    out = {}
    modes = ["emptycol", "emptyrow", "hall", "dupcol", "duprow"]
    for ty, k in split_types(count, types).items():
        lst = []
        for i in range(k):
            n = g.r.randint(1, nmax)
            mode = g.r.choice(modes)
            A = singular_matrix(g, n, is_cplx(ty), mode)
            lst.append(lu_scenario(g, "%s-sing%s-%05d-%s" % (prop, mode, i, ty), ty, n, fn=fn, A=A))
        out[ty] = lst
    return out


# ----------------------------------------------------------------------------- expert driver / storage
def gssvx_block(opts=None, work=None, events=0, fn="gssvx"):
    """lines for one expert-driver call with the given option overrides; work = (lwork, align) or None"""
    lines = []
    if opts:
        lines += opt_lines(opts)
    lines.append("work %d %d" % work if work is not None else "nowork")
    lines.append("events %d" % events)
    lines.append("call " + fn)
    return lines


def sweep_matrix(g, ty, n):
    cplx = is_cplx(ty)
    if g.r.random() < 0.6:
        return g.lu_product(n, cplx)
    A, _ = g.matrix(n, n, cplx, style="pow2", kind=g.r.choice(["dense", "sparse", "band", "arrow"]))
    return A


def query_estimate(m, n, annz, panel, fill, dword, liword=4):
    """the value ?LUMemInit reports for lwork = -1 (minus n): used only to choose the range of the sweep"""
    iword = 4
    glu_int = 5 * n + 5
    temp = (2 * panel + 4 + 3) * m * iword + (panel + 1) * m * dword
    nz = int(fill * annz)
    return glu_int * iword + temp + 2 * nz * iword + 2 * nz * dword


DWORD = {"s": 4, "d": 8, "c": 8, "z": 16}


def arrow_matrix(n, cplx):
    """dense first row and column + diagonal, natural order: U fills completely (forces UCOL/USUB growth)"""
    A = {}
    for i in range(n):
        A[(i, i)] = (2.0, 0.0)
        A[(0, i)] = (1.0, 0.0)
        A[(i, 0)] = (1.0, 0.0)
    A[(0, 0)] = (4.0, 0.0)
    return A


def fam_sweep(g, prop, ty, specs, aligns, fn="gssvx", family="sweep", step=4, slack=200, arrow=False):
    """every workspace length from one word to beyond the requirement x alignments, for the matrices described by
    specs = [(n, fill), ...]: one scenario per run, each preceded by a reference run with library allocation and
    no expansion (fill 30)"""
    out = []
    cplx = is_cplx(ty)
    ilu = fn == "gsisx"
    for mi, (n, fill) in enumerate(specs):
        A = arrow_matrix(n, cplx) if arrow else sweep_matrix(g, ty, n)
        tune = [1, 1, 1, 1, 1, fill, 1] if arrow else g.tune()
        tune[5] = fill
        colperm = NATURAL if arrow else g.r.choice([NATURAL, COLAMD, MMD_ATA])
        B = g.rhs_for(A, n, 1, cplx)
        head = g.mat_lines(A, n, n, "NC", cplx) + g.rhs_lines(B, n, 1, n, cplx)
        base_opts = {"iludefault" if ilu else "default": 0, "ColPerm": colperm, "Equil": 0}
        if ilu:
            base_opts.update({"DropRule": 0, "DropTol": 0.0, "RowPerm": 0})
        top = query_estimate(n, n, len(A), tune[0], fill, DWORD[ty]) + slack
        for al in aligns:
            for lw in range(step, top, step):
                sid = "%s-%s%s-m%02df%da%d-%05d-%s" % (prop, family, "ilu" if ilu else "", mi, fill, al, lw, ty)
                ref_tune = list(tune); ref_tune[5] = 30
                lines = ["tune " + " ".join(map(str, ref_tune))] + head + opt_lines(base_opts)
                lines += gssvx_block(work=None, events=0, fn=fn)
                lines += ["destroy LU", "tune " + " ".join(map(str, tune))]
                lines += g.rhs_lines(B, n, 1, n, cplx)
                lines += gssvx_block(work=(lw, al), events=3, fn=fn)
                out.append({"id": sid, "lines": lines, "n": n})
    return out


def fam_storage(g, prop, count, types, fn="gssvx", nmax=7):
    """C07: one matrix, many ways of obtaining the factor storage: reference (library allocation, fill 30), then
    fill estimates 1..3 with library allocation (0..many expansions) and caller workspaces of several sufficient
    lengths and both alignments.  All successful runs of a scenario must agree bit for bit."""
    out = {}
    ilu = fn == "gsisx"
    for ty, k in split_types(count, types).items():
        cplx = is_cplx(ty)
        lst = []
        for i in range(k):
            n = g.r.randint(2, nmax)
            A = sweep_matrix(g, ty, n)
            tune = g.tune()
            colperm = g.r.choice([NATURAL, COLAMD, MMD_ATA, MMD_AT_PLUS_A])
            B = g.rhs_for(A, n, 1, cplx)
            opts = {"iludefault" if ilu else "default": 0, "ColPerm": colperm, "Equil": 0, "u": float(g.r.choice([1.0, 0.5, 0.125]))}
            if ilu:
                opts.update({"DropRule": g.r.choice([0, 0, 1, 9]), "DropTol": g.r.choice([0.0, 0.0, 0.0009765625]), "RowPerm": 0})
            ref_tune = list(tune); ref_tune[5] = 30
            lines = ["tune " + " ".join(map(str, ref_tune))] + g.mat_lines(A, n, n, "NC", cplx) + g.rhs_lines(B, n, 1, n, cplx) + opt_lines(opts)
            lines += gssvx_block(work=None, events=3, fn=fn)
            for fill in (1, 2, 3):
                t2 = list(tune); t2[5] = fill
                lines += ["destroy LU", "tune " + " ".join(map(str, t2))] + g.rhs_lines(B, n, 1, n, cplx)
                lines += gssvx_block(work=None, events=3, fn=fn)
                est = query_estimate(n, n, len(A), tune[0], fill, DWORD[ty])
                for delta in g.r.sample([0, 8, 40, 120, 400, 2000], 2):
                    al = g.r.choice([0, 4])
                    lines += ["destroy LU"] + g.rhs_lines(B, n, 1, n, cplx)
                    lines += gssvx_block(work=(est + delta + 8 * n * DWORD[ty], al), events=3, fn=fn)
                    lines += ["destroy LUuser"]
                    lines += ["nowork"]
            lines += ["destroy LU"]
            lst.append({"id": "%s-storage%s-%05d-%s" % (prop, "ilu" if ilu else "", i, ty), "lines": lines, "n": n})
        out[ty] = lst
    return out


def fam_query(g, prop, count, types):
    """lwork = -1 on a context that holds earlier results (so that any side effect shows)"""
    out = {}
    for ty, k in split_types(count, types).items():
        cplx = is_cplx(ty)
        lst = []
        for i in range(k):
            n = g.r.randint(1, 7)
            A = sweep_matrix(g, ty, n)
            fn = g.r.choice(["gssvx", "gssvx", "gsisx"])
            ilu = fn == "gsisx"
            B = g.rhs_for(A, n, 1, cplx)
            opts = {"iludefault" if ilu else "default": 0, "ColPerm": g.r.choice([NATURAL, COLAMD, MMD_ATA]), "Equil": g.r.choice([0, 1]),
                    "Trans": g.r.choice([0, 1]), "PivotGrowth": g.r.choice([0, 1]), "Cond": g.r.choice([0, 1])}
            if ilu:
                opts["RowPerm"] = g.r.choice([0, 1])
            lines = ["tune " + " ".join(map(str, g.tune()))] + g.mat_lines(A, n, n, g.r.choice(["NC", "NR"]), cplx) + g.rhs_lines(B, n, 1, n, cplx) + opt_lines(opts)
            if g.r.random() < 0.5:      # query on a fresh context, or after a real factorization
                lines += gssvx_block(work=None, fn=fn) + ["destroy LU"] + g.rhs_lines(B, n, 1, n, cplx)
            lines += gssvx_block(work=(-1, 0), events=3, fn=fn)
            lst.append({"id": "%s-query%s-%05d-%s" % (prop, "ilu" if ilu else "", i, ty), "lines": lines, "n": n})
        out[ty] = lst
    return out


def fam_failpos(g, prop, count, types):
    """library allocation: the k-th allocation request of the call returns NULL, for every k (one scenario each)"""
    out = {}
    for ty, kk in split_types(count, types).items():
        cplx = is_cplx(ty)
        lst = []
        for i in range(kk):
            n = g.r.randint(2, 5)
            A = arrow_matrix(n + 2, cplx) if g.r.random() < 0.4 else sweep_matrix(g, ty, n)
            n = max(k[0] for k in A) + 1
            fn = g.r.choice(["gssvx", "gssvx", "gsisx"])
            ilu = fn == "gsisx"
            B = g.rhs_for(A, n, 1, cplx)
            tune = g.tune(); tune[5] = 1
            opts = {"iludefault" if ilu else "default": 0, "ColPerm": NATURAL, "Equil": 0}
            if ilu:
                opts["RowPerm"] = 0
            head = ["tune " + " ".join(map(str, tune))] + g.mat_lines(A, n, n, "NC", cplx) + g.rhs_lines(B, n, 1, n, cplx) + opt_lines(opts)
            # "@expand": only the allocation requests made by ?expand (factor-growth requests) are failed;
            # sticky 0 = that one request fails (a smaller retry may succeed), 1 = every request from the k-th on
            for sticky in (0, 1):
                for k in range(1, 10):
                    lines = list(head) + ["failalloc @expand 0 %d %d" % (k, sticky)] + gssvx_block(work=None, events=3, fn=fn) + ["nofail"]
                    lst.append({"id": "%s-failpos%s-%03dk%02ds%d-%s" % (prop, "ilu" if ilu else "", i, k, sticky, ty), "lines": lines, "n": n})
        out[ty] = lst
    return out
