#!/usr/bin/env python3
"""Scenario families: lists of harness scenarios (dicts with id and script lines).
Scenario ids are <property>-<family>-<serial>-<type>; the family name is part of
the key under which a finding is recorded, so families are kept fine-grained."""
from gen import Gen, hx

NATURAL, MMD_ATA, MMD_AT_PLUS_A, COLAMD, MY_PERMC = 0, 1, 2, 3, 8
ORDERINGS = [NATURAL, MMD_ATA, MMD_AT_PLUS_A, COLAMD, MY_PERMC]
TYPES = ["d", "s", "z", "c"]


def is_cplx(ty):
    return ty in ("c", "z")


def opt_lines(opts):
    return ["opt %s %s" % (k, (hx(v) if isinstance(v, float) else v)) for k, v in opts.items()]


def lu_scenario(g, sid, ty, n, m=None, fn="gssv", fam_opts=None, A=None, style=None, kind=None, nrhs=None, fmt=None, colperm=None, u=None, sym=None, tune=None, nonsing=True):
    """one factor/solve scenario through ?gssv or ?gstrf"""
    r = g.r
    m = m or n
    cplx = is_cplx(ty)
    if A is None:
        if m == n and r.random() < 0.45:
            A = g.lu_product(n, cplx)
        else:
            A, style = g.matrix(m, n, cplx, style=style, kind=kind, nonsingular_pattern=nonsing)
    fmt = fmt or r.choice(["NC", "NC", "NR"] if fn == "gssv" else ["NC"])
    colperm = r.choice(ORDERINGS) if colperm is None else colperm
    if m != n and colperm in (MMD_AT_PLUS_A,):
        colperm = COLAMD
    u = r.choice([1.0, 1.0, 0.5, 0.25, 0.125, 0.0625]) if u is None else u
    sym = (1 if r.random() < 0.2 else 0) if sym is None else sym
    tune = tune or g.tune()
    lines = ["tune " + " ".join(map(str, tune))]
    lines += g.mat_lines(A, m, n, fmt, cplx)
    opts = {"default": 0, "ColPerm": colperm, "u": float(u), "Sym": sym}
    if fam_opts:
        opts.update(fam_opts)
    lines += opt_lines(opts)
    if colperm == MY_PERMC:
        p = list(range(n)); r.shuffle(p)
        lines.append("permc " + " ".join(map(str, p)))
    if fn == "gssv":
        nrhs = r.choice([0, 1, 1, 2, 3]) if nrhs is None else nrhs
        ldb = n + r.choice([0, 0, 3])
        B = g.rhs_for(A, n, nrhs, cplx)
        lines += g.rhs_lines(B, n, nrhs, max(ldb, 1), cplx)
    lines.append("call " + fn)
    lines.append("destroy all")
    lines.append("ledger")
    return {"id": sid, "lines": lines, "n": n, "m": m}


def split_types(count, tier_types):
    """type d fully, the others a fraction (DESIGN 8)"""
    out = {}
    for ty, frac in tier_types.items():
        out[ty] = max(1, int(count * frac))
    return out


def fam_gssv(g, prop, count, types, nmax=8):
    out = {}
    for ty, k in split_types(count, types).items():
        out[ty] = [lu_scenario(g, "%s-gssv-%05d-%s" % (prop, i, ty), ty, g.r.randint(1, nmax)) for i in range(k)]
    return out


def fam_gstrf(g, prop, count, types, nmax=7):
    """factor routine called directly: square and tall matrices, caller-supplied perm_c"""
    out = {}
    for ty, k in split_types(count, types).items():
        lst = []
        for i in range(k):
            n = g.r.randint(2, nmax)
            tall = g.r.random() < 0.5
            m = n + g.r.randint(1, 3) if tall else n
            lst.append(lu_scenario(g, "%s-%s-%05d-%s" % (prop, "gstrftall" if tall else "gstrf", i, ty), ty, n, m=m, fn="gstrf",
                                   colperm=g.r.choice([NATURAL, MMD_ATA, COLAMD, MY_PERMC])))
        out[ty] = lst
    return out


def fam_tall_n1(g, prop, count, types):
    """m x 1 matrices through ?gstrf (single column: exercises the n = 1 paths of the wrap-up)"""
    out = {}
    for ty, k in split_types(count, types).items():
        lst = []
        for i in range(k):
            m = g.r.randint(1, 6)
            lst.append(lu_scenario(g, "%s-talln1-%05d-%s" % (prop, i, ty), ty, 1, m=m, fn="gstrf", kind="dense", colperm=NATURAL))
        out[ty] = lst
    return out


def singular_matrix(g, n, cplx, mode):
    """exactly singular matrices with small dyadic entries (DESIGN C04)"""
    r = g.r
    A, _ = g.matrix(n, n, cplx, style=r.choice(["pow2", "small"]), kind=r.choice(["dense", "sparse", "band"]))
    if mode == "emptycol":
        for c in r.sample(range(n), r.randint(1, max(1, n // 3))):
            A = {k: v for k, v in A.items() if k[1] != c}
    elif mode == "emptyrow":
        for c in r.sample(range(n), r.randint(1, max(1, n // 3))):
            A = {k: v for k, v in A.items() if k[0] != c}
    elif mode == "hall":
        # k+1 columns confined to the same k rows
        k = r.randint(1, max(1, n - 2))
        rows = r.sample(range(n), k)
        cols = r.sample(range(n), min(n, k + 1))
        A = {key: v for key, v in A.items() if not (key[1] in cols and key[0] not in rows)}
        for c in cols:
            A[(r.choice(rows), c)] = g.value("pow2", cplx)
    elif mode == "dupcol" and n >= 2:
        a, b = r.sample(range(n), 2)
        A = {k: v for k, v in A.items() if k[1] != b}
        s = r.choice([1.0, -1.0, 2.0, 0.5])
        for (i, j), v in list(A.items()):
            if j == a:
                A[(i, b)] = (v[0] * s, v[1] * s)
    elif mode == "duprow" and n >= 2:
        a, b = r.sample(range(n), 2)
        A = {k: v for k, v in A.items() if k[0] != b}
        s = r.choice([1.0, -1.0, 2.0, 0.5])
        for (i, j), v in list(A.items()):
            if i == a:
                A[(b, j)] = (v[0] * s, v[1] * s)
    if not A:
        A = {(0, 0): (0.0, 0.0)} if n == 1 else {(0, n - 1): (1.0, 0.0)}
    return A


def fam_singular(g, prop, count, types, fn="gssv", nmax=7):
    out = {}
    modes = ["emptycol", "emptyrow", "hall", "dupcol", "duprow"]
    for ty, k in split_types(count, types).items():
        lst = []
        for i in range(k):
            n = g.r.randint(1, nmax)
            mode = g.r.choice(modes)
            A = singular_matrix(g, n, is_cplx(ty), mode)
            lst.append(lu_scenario(g, "%s-sing%s-%05d-%s" % (prop, mode, i, ty), ty, n, fn=fn, A=A))
        out[ty] = lst
    return out
