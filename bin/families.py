#!/usr/bin/env python3
"""Scenario families: lists of harness scenarios (dicts with id and script lines).
Scenario ids are <property>-<family>-<serial>-<type>; the family name is part of
the key under which a finding is recorded, so families are kept fine-grained."""
from gen import Gen, hx

NATURAL, MMD_ATA, MMD_AT_PLUS_A, COLAMD, MY_PERMC = 0, 1, 2, 3, 8
ORDERINGS = [NATURAL, MMD_ATA, MMD_AT_PLUS_A, COLAMD, MY_PERMC]
TYPES = ["d", "s", "z", "c"]


def is_cplx(ty):
    return ty in ("c", "z")


def opt_lines(opts):
    return ["opt %s %s" % (k, (hx(v) if isinstance(v, float) else v)) for k, v in opts.items()]


def lu_scenario(g, sid, ty, n, m=None, fn="gssv", fam_opts=None, A=None, style=None, kind=None, nrhs=None, fmt=None, colperm=None, u=None, sym=None, tune=None, nonsing=True):
    """one factor/solve scenario through ?gssv or ?gstrf"""
    r = g.r
    m = m or n
    cplx = is_cplx(ty)
    if A is None:
        if m == n and r.random() < 0.45:
            A = g.lu_product(n, cplx)
        else:
            A, style = g.matrix(m, n, cplx, style=style, kind=kind, nonsingular_pattern=nonsing)
    fmt = fmt or r.choice(["NC", "NC", "NR"] if fn in ("gssv", "gssvx") else ["NC"])
    colperm = r.choice(ORDERINGS) if colperm is None else colperm
    if m != n and colperm in (MMD_AT_PLUS_A,):
        colperm = COLAMD
    u = r.choice([1.0, 1.0, 0.5, 0.25, 0.125, 0.0625, 0.0]) if u is None else u
    sym = (1 if r.random() < 0.2 else 0) if sym is None else sym
    tune = tune or g.tune()
    lines = ["tune " + " ".join(map(str, tune))]
    lines += g.mat_lines(A, m, n, fmt, cplx)
    opts = {"default": 0, "ColPerm": colperm, "u": float(u), "Sym": sym}
    if fam_opts:
        opts.update(fam_opts)
    lines += opt_lines(opts)
    if colperm == MY_PERMC:
        p = list(range(n)); r.shuffle(p)
        lines.append("permc " + " ".join(map(str, p)))
    if fn == "gssvx":
        lines += opt_lines({"PivotGrowth": r.choice([0, 1]), "Cond": r.choice([0, 1]), "Equil": r.choice([0, 1]), "IterRefine": r.choice([0, 1])})
    if fn in ("gssv", "gssvx"):
        nrhs = r.choice([0, 1, 1, 2, 3] if fn == "gssv" else [1, 2]) if nrhs is None else nrhs
        ldb = n + r.choice([0, 0, 3])
        B = g.rhs_for(A, n, nrhs, cplx)
        lines += g.rhs_lines(B, n, nrhs, max(ldb, 1), cplx)
    lines.append("call " + fn)
    lines.append("destroy all")
    lines.append("ledger")
    return {"id": sid, "lines": lines, "n": n, "m": m}


def split_types(count, tier_types):
    """type d fully, the others a fraction (DESIGN 8)"""
    out = {}
    for ty, frac in tier_types.items():
        out[ty] = max(1, int(count * frac))
    return out


def fam_gssv(g, prop, count, types, nmax=8):
    out = {}
    for ty, k in split_types(count, types).items():
        out[ty] = [lu_scenario(g, "%s-gssv-%05d-%s" % (prop, i, ty), ty, g.r.randint(1, nmax)) for i in range(k)]
    return out


def fam_gssv_big(g, prop, count, types, nlo=9, nhi=18):
    """larger systems with wide supernodes and small row/column block sizes: the 2-D blocked update paths of
    ?panel_bmod / ?column_bmod (supernodes of >= colblk columns with more than rowblk rows, U-segments that start
    inside a supernode) are not reachable with orders <= 8"""
    out = {}
    for ty, k in split_types(count, types).items():
        cplx = is_cplx(ty)
        lst = []
        for i in range(k):
            r = g.r
            n = r.randint(nlo, nhi)
            if r.random() < 0.6:
                A = g.lu_product(n, cplx)
            else:
                A, _ = g.matrix(n, n, cplx, style=r.choice(["pow2", "small", "int"]), kind=r.choice(["dense", "block", "band", "arrow"]))
            panel = r.randint(1, 6); relax = r.randint(1, 4); maxsuper = r.randint(max(relax, 5), n)
            tune = [panel, relax, maxsuper, r.randint(1, 3), r.randint(1, 3), r.choice([1, 2, 30]), r.randint(1, 6)]
            lst.append(lu_scenario(g, "%s-gssvbig-%05d-%s" % (prop, i, ty), ty, n, A=A, tune=tune, colperm=r.choice([NATURAL, NATURAL, COLAMD, MMD_AT_PLUS_A])))
        out[ty] = lst
    return out


def fam_gstrf(g, prop, count, types, nmax=7):
    """factor routine called directly: square and tall matrices, caller-supplied perm_c"""
    out = {}
    for ty, k in split_types(count, types).items():
        lst = []
        for i in range(k):
            n = g.r.randint(2, nmax)
            tall = g.r.random() < 0.5
            m = n + g.r.randint(1, 3) if tall else n
            lst.append(lu_scenario(g, "%s-%s-%05d-%s" % (prop, "gstrftall" if tall else "gstrf", i, ty), ty, n, m=m, fn="gstrf",
                                   colperm=g.r.choice([NATURAL, MMD_ATA, COLAMD, MY_PERMC])))
        out[ty] = lst
    return out


def fam_tall_n1(g, prop, count, types):
    """m x 1 matrices through ?gstrf (single column: exercises the n = 1 paths of the wrap-up)"""
    out = {}
    for ty, k in split_types(count, types).items():
        lst = []
        for i in range(k):
            m = g.r.randint(1, 6)
            lst.append(lu_scenario(g, "%s-talln1-%05d-%s" % (prop, i, ty), ty, 1, m=m, fn="gstrf", kind="dense", colperm=NATURAL))
        out[ty] = lst
    return out


def singular_matrix(g, n, cplx, mode):
    """exactly singular matrices with small dyadic entries (DESIGN C04)"""
    r = g.r
    A, _ = g.matrix(n, n, cplx, style=r.choice(["pow2", "small"]), kind=r.choice(["dense", "sparse", "band"]))
    if mode == "emptycol":
        for c in r.sample(range(n), r.randint(1, max(1, n // 3))):
            A = {k: v for k, v in A.items() if k[1] != c}
    elif mode == "emptyrow":
        for c in r.sample(range(n), r.randint(1, max(1, n // 3))):
            A = {k: v for k, v in A.items() if k[0] != c}
    elif mode == "hall":
        # k+1 columns confined to the same k rows
        k = r.randint(1, max(1, n - 2))
        rows = r.sample(range(n), k)
        cols = r.sample(range(n), min(n, k + 1))
        A = {key: v for key, v in A.items() if not (key[1] in cols and key[0] not in rows)}
        for c in cols:
            A[(r.choice(rows), c)] = g.value("pow2", cplx)
    elif mode == "dupcol" and n >= 2:
        a, b = r.sample(range(n), 2)
        A = {k: v for k, v in A.items() if k[1] != b}
        s = r.choice([1.0, -1.0, 2.0, 0.5])
        for (i, j), v in list(A.items()):
            if j == a:
                A[(i, b)] = (v[0] * s, v[1] * s)
    elif mode == "duprow" and n >= 2:
        a, b = r.sample(range(n), 2)
        A = {k: v for k, v in A.items() if k[0] != b}
        s = r.choice([1.0, -1.0, 2.0, 0.5])
        for (i, j), v in list(A.items()):
            if i == a:
                A[(b, j)] = (v[0] * s, v[1] * s)
    if not A:
        A = {(0, 0): (0.0, 0.0)} if n == 1 else {(0, n - 1): (1.0, 0.0)}
    return A


def fam_singular(g, prop, count, types, fn="gssv", nmax=7):
    out = {}
    modes = ["emptycol", "emptyrow", "hall", "dupcol", "duprow"]
    for ty, k in split_types(count, types).items():
        lst = []
        for i in range(k):
            n = g.r.randint(1, nmax)
            mode = g.r.choice(modes)
            A = singular_matrix(g, n, is_cplx(ty), mode)
            if fn == "gssvx" and g.r.random() < 0.5:
                # badly scaled rows / columns (powers of two: singularity stays exact): equilibration really scales A
                sp = g.r.choice([4, 8])
                which = g.r.choice(["rows", "cols", "both"])
                rs = [2.0 ** g.r.randint(-sp, sp) if which in ("rows", "both") else 1.0 for _ in range(n)]
                cs = [2.0 ** g.r.randint(-sp, sp) if which in ("cols", "both") else 1.0 for _ in range(n)]
                A = {(a, b): (v[0] * rs[a] * cs[b], v[1] * rs[a] * cs[b]) for (a, b), v in A.items()}
            lst.append(lu_scenario(g, "%s-sing%s-%05d-%s" % (prop, mode, i, ty), ty, n, fn=fn, A=A))
        out[ty] = lst
    return out


def fam_reusezero(g, prop, count, types):
    """refactorization with the row permutation of an earlier call (SamePattern_SameRowPerm) after the caller changed
    values so that a former pivot is exactly zero (stored zero in the first column, or exact cancellation), with
    thresholds down to 0: the old pivot must be abandoned, or the column reported singular when no candidate is left"""
    out = {}
    for ty, k in split_types(count, types).items():
        cplx = is_cplx(ty)
        lst = []
        for i in range(k):
            r = g.r
            n = r.randint(2, 6)
            A, _ = g.matrix(n, n, cplx, style="pow2", kind=r.choice(["dense", "sparse", "band"]))
            for d in range(n):
                A.setdefault((d, d), g.value("pow2", cplx))
            fmt = r.choice(["NC", "NC", "NR"])
            u = r.choice([0.0, 0.0, 0.0, 0.125, 1.0])
            o = {"default": 0, "ColPerm": r.choice([NATURAL, NATURAL, COLAMD, MMD_ATA]), "Equil": 0, "u": float(u), "Trans": r.choice([0, 1]), "IterRefine": 0, "Cond": 0, "PivotGrowth": r.choice([0, 1])}
            B = g.rhs_for(A, n, 1, cplx)
            lines = ["tune " + " ".join(map(str, g.tune()))] + g.mat_lines(A, n, n, fmt, cplx) + g.rhs_lines(B, n, 1, n, cplx) + opt_lines(o)
            lines += gssvx_block(work=None, events=0) + ["requireok"]
            for rep in range(r.choice([1, 1, 2])):
                lines.append("mutate zeropiv %d" % (0 if r.random() < 0.6 else r.randint(0, n - 1)))
                if r.random() < 0.3:
                    lines.append("mutate zeropiv %d" % r.randint(0, n - 1))
                lines += opt_lines({"Fact": 2}) + g.rhs_lines(B, n, 1, n, cplx) + gssvx_block(work=None, events=0)
            lines += ["destroy all", "ledger"]
            lst.append({"id": "%s-reusezero-%05d-%s" % (prop, i, ty), "lines": lines, "n": n})
        out[ty] = lst
    return out


# ----------------------------------------------------------------------------- expert driver / storage
def gssvx_block(opts=None, work=None, events=0, fn="gssvx"):
    """lines for one expert-driver call with the given option overrides; work = (lwork, align) or None"""
    lines = []
    if opts:
        lines += opt_lines(opts)
    lines.append("work %d %d" % work if work is not None else "nowork")
    lines.append("events %d" % events)
    lines.append("call " + fn)
    return lines


def sweep_matrix(g, ty, n):
    cplx = is_cplx(ty)
    if g.r.random() < 0.6:
        return g.lu_product(n, cplx)
    A, _ = g.matrix(n, n, cplx, style="pow2", kind=g.r.choice(["dense", "sparse", "band", "arrow"]))
    return A


def query_estimate(m, n, annz, panel, fill, dword, liword=4):
    """the value ?LUMemInit reports for lwork = -1 (minus n): used only to choose the range of the sweep"""
    iword = 4
    glu_int = 5 * n + 5
    temp = (2 * panel + 4 + 3) * m * iword + (panel + 1) * m * dword
    nz = int(fill * annz)
    return glu_int * iword + temp + 2 * nz * iword + 2 * nz * dword


DWORD = {"s": 4, "d": 8, "c": 8, "z": 16}


def arrow_matrix(n, cplx):
    """dense first row and column + diagonal, natural order: U fills completely (forces UCOL/USUB growth)"""
    A = {}
    for i in range(n):
        A[(i, i)] = (2.0, 0.0)
        A[(0, i)] = (1.0, 0.0)
        A[(i, 0)] = (1.0, 0.0)
    A[(0, 0)] = (4.0, 0.0)
    return A


def fam_sweep(g, prop, ty, specs, aligns, fn="gssvx", family="sweep", step=4, slack=200, arrow=False):
    """every workspace length from one word to beyond the requirement x alignments, for the matrices described by
    specs = [(n, fill), ...]: one scenario per run, each preceded by a reference run with library allocation and
    no expansion (fill 30)"""
    out = []
    cplx = is_cplx(ty)
    ilu = fn == "gsisx"
    for mi, (n, fill) in enumerate(specs):
        A = arrow_matrix(n, cplx) if arrow else sweep_matrix(g, ty, n)
        tune = [1, 1, 1, 1, 1, fill, 1] if arrow else g.tune()
        tune[5] = fill
        colperm = NATURAL if arrow else g.r.choice([NATURAL, COLAMD, MMD_ATA])
        B = g.rhs_for(A, n, 1, cplx)
        head = g.mat_lines(A, n, n, "NC", cplx) + g.rhs_lines(B, n, 1, n, cplx)
        base_opts = {"iludefault" if ilu else "default": 0, "ColPerm": colperm, "Equil": 0}
        if ilu:
            base_opts.update({"DropRule": 0, "DropTol": 0.0, "RowPerm": 0})
        top = query_estimate(n, n, len(A), tune[0], fill, DWORD[ty]) + slack
        for al in aligns:
            for lw in range(step, top, step):
                sid = "%s-%s%s-m%02df%da%d-%05d-%s" % (prop, family, "ilu" if ilu else "", mi, fill, al, lw, ty)
                ref_tune = list(tune); ref_tune[5] = 30
                lines = ["tune " + " ".join(map(str, ref_tune))] + head + opt_lines(base_opts)
                lines += gssvx_block(work=None, events=0, fn=fn)
                lines += ["destroy LU", "tune " + " ".join(map(str, tune))]
                lines += g.rhs_lines(B, n, 1, n, cplx)
                lines += gssvx_block(work=(lw, al), events=3, fn=fn)
                out.append({"id": sid, "lines": lines, "n": n})
    return out


def fam_sweep_tall(g, prop, ty, specs, aligns, step=8, slack=400):
    """the factor routine called directly (sp_preorder + ?gstrf, as the Fortran bridge does) on TALL matrices with a caller
    workspace of every length: the drivers only accept square systems, the work arrays at the top of the workspace are sized
    by the row count m while the pointer arrays go by the column count n"""
    out = []
    cplx = is_cplx(ty)
    for mi, (m, n, fill) in enumerate(specs):
        A, _ = g.matrix(m, n, cplx, style="pow2", kind=g.r.choice(["dense", "sparse", "band"]))
        tune = g.tune(); tune[5] = fill
        head = g.mat_lines(A, m, n, "NC", cplx) + opt_lines({"default": 0, "ColPerm": g.r.choice([NATURAL, COLAMD, MMD_ATA]), "Equil": 0, "u": float(g.r.choice([1.0, 0.5]))})
        top = query_estimate(m, n, len(A), tune[0], fill, DWORD[ty]) + slack
        for al in aligns:
            for lw in range(step, top, step):
                sid = "%s-sweeptall-m%02df%da%d-%05d-%s" % (prop, mi, fill, al, lw, ty)
                lines = ["tune " + " ".join(map(str, tune))] + head + ["work %d %d" % (lw, al), "events 3", "call gstrf"]
                out.append({"id": sid, "lines": lines, "n": n})
    return out


def fam_storage(g, prop, count, types, fn="gssvx", nmax=7):
    """C07: one matrix, many ways of obtaining the factor storage: reference (library allocation, fill 30), then
    fill estimates 1..3 with library allocation (0..many expansions) and caller workspaces of several sufficient
    lengths and both alignments.  All successful runs of a scenario must agree bit for bit."""
    out = {}
    ilu = fn == "gsisx"
    for ty, k in split_types(count, types).items():
        cplx = is_cplx(ty)
        lst = []
        for i in range(k):
            n = g.r.randint(2, nmax)
            A = sweep_matrix(g, ty, n)
            tune = g.tune()
            colperm = g.r.choice([NATURAL, COLAMD, MMD_ATA, MMD_AT_PLUS_A])
            B = g.rhs_for(A, n, 1, cplx)
            opts = {"iludefault" if ilu else "default": 0, "ColPerm": colperm, "Equil": 0, "u": float(g.r.choice([1.0, 0.5, 0.125]))}
            if ilu:
                opts.update({"DropRule": g.r.choice([0, 0, 1, 9]), "DropTol": g.r.choice([0.0, 0.0, 0.0009765625]), "RowPerm": 0})
            ref_tune = list(tune); ref_tune[5] = 30
            lines = ["tune " + " ".join(map(str, ref_tune))] + g.mat_lines(A, n, n, "NC", cplx) + g.rhs_lines(B, n, 1, n, cplx) + opt_lines(opts)
            lines += gssvx_block(work=None, events=3, fn=fn)
            for fill in (1, 2, 3):
                t2 = list(tune); t2[5] = fill
                lines += ["destroy LU", "tune " + " ".join(map(str, t2))] + g.rhs_lines(B, n, 1, n, cplx)
                lines += gssvx_block(work=None, events=3, fn=fn)
                est = query_estimate(n, n, len(A), tune[0], fill, DWORD[ty])
                for delta in g.r.sample([0, 8, 40, 120, 400, 2000], 2):
                    al = g.r.choice([0, 4])
                    lines += ["destroy LU"] + g.rhs_lines(B, n, 1, n, cplx)
                    lines += gssvx_block(work=(est + delta + 8 * n * DWORD[ty], al), events=3, fn=fn)
                    lines += ["destroy LUuser"]
                    lines += ["nowork"]
            lines += ["destroy LU"]
            lst.append({"id": "%s-storage%s-%05d-%s" % (prop, "ilu" if ilu else "", i, ty), "lines": lines, "n": n})
        out[ty] = lst
    return out


def fam_ilu_sizesweep(g, prop, count, types):
    """C07 for the incomplete factorization: ILU_FillFactor is a real number and (with the basic dropping rule only) nothing
    but the initial size estimate, so EVERY initial length of the factor arrays can be requested: annz .. beyond the final
    size, one word at a time, with library allocation and caller workspaces of both alignments.  Structurally nonsingular
    matrices in which dropping empties the L part of a column (it gets an invented fill-in position, 0 < info <= n) and ordinary ones.
    All runs of a scenario must return the same info, permutations and factors."""
    out = {}
    for ty, k in split_types(count, types).items():
        cplx = is_cplx(ty)
        lst = []
        for i in range(k):
            r = g.r
            if r.random() < 0.6:
                A, n = ilu_split_matrix(g)                       # dropping empties L columns: invented fill-in positions
            else:
                n = r.randint(4, 10)
                A, _ = g.matrix(n, n, False, style="pow2", kind=r.choice(["sparse", "band", "arrow", "dense"]))
                for kk in list(A):
                    if kk[0] != kk[1] and r.random() < 0.25:
                        A[kk] = (A[kk][0] * 2.0 ** -20, 0.0)     # tiny: dropped by the basic rule
            annz = len(A)
            tune = [r.randint(1, 3), r.randint(1, 3), r.randint(2, 4), r.randint(1, 3), r.randint(1, 3), 30, r.randint(2, 6)]
            tune[2] = max(tune[2], tune[1])
            opts = {"iludefault": 0, "ColPerm": r.choice([NATURAL, NATURAL, COLAMD, MMD_AT_PLUS_A]), "Equil": 0, "RowPerm": 0, "u": float(r.choice([1.0, 0.5, 0.125])),
                    "DropRule": r.choice([0, 1, 1, 1]), "DropTol": float(r.choice([0.0, 2.0 ** -10, 2.0 ** -10, 2.0 ** -4])), "FillFactor": 40.0, "Sym": 1 if r.random() < 0.15 else 0}
            B = g.rhs_for(A, n, 1, cplx)
            lines = ["tune " + " ".join(map(str, tune))] + g.mat_lines(A, n, n, "NC", cplx) + g.rhs_lines(B, n, 1, n, cplx) + opt_lines(opts)
            lines += gssvx_block(work=None, events=3, fn="gsisx")          # reference: no growth at all
            hi = min(annz * 4, annz + 60)
            lens = list(range(annz, hi + 1))          # (fill estimate >= 1)
            if len(lens) > 40:
                lens = sorted(r.sample(lens, 40))
            for L in lens:
                ff = (L + 0.5) / annz
                mode = r.choice(["sys", "user0", "user4", "user0", "user4"])
                lines += ["destroy LU"] + g.rhs_lines(B, n, 1, n, cplx) + opt_lines({"FillFactor": float(ff)})
                if mode == "sys":
                    lines += gssvx_block(work=None, events=1, fn="gsisx")
                else:
                    est = query_estimate(n, n, annz, tune[0], 8, DWORD[ty]) + 40 * n * DWORD[ty] + 4000
                    lines += gssvx_block(work=(est, 0 if mode == "user0" else 4), events=1, fn="gsisx")
                    lines += ["destroy LUuser", "nowork"]
            lines += ["destroy LU"]
            lst.append({"id": "%s-ilusizes-%05d-%s" % (prop, i, ty), "lines": lines, "n": n})
        out[ty] = lst
    return out


def fam_ilu_capacity(g, prop, count, types):
    """C07 / C19 "every exact size of the growable arrays relative to their capacity": a reference incomplete factorization, then
    one run per column boundary of its factor arrays with exactly that initial capacity (harness commands cursors / fillfrom:
    the array is exactly full when that column begins), library allocation and caller workspaces of both alignments."""
    out = {}
    for ty, k in split_types(count, types).items():
        cplx = is_cplx(ty)
        lst = []
        for i in range(k):
            r = g.r
            t = r.random()
            if t < 0.6:
                # a leading block that fills in completely (dense first row and column, natural order): the factor arrays are
                # then longer than nnz(A), i.e. they CAN be exactly full (fill estimate >= 1) when a later column begins;
                # then the chain / leaf pattern in which dropping empties L columns
                S, ns = ilu_split_matrix(g)
                kb = r.randint(4, 9)
                A = {(a, a): (4.0, 0.0) for a in range(kb)}
                for a in range(1, kb):
                    A[(a, 0)] = (float(r.choice([1, -1, 2])), 0.0); A[(0, a)] = (float(r.choice([1, -1, 0.5])), 0.0)
                for (a, b), v in S.items():
                    A[(a + kb, b + kb)] = v
                n = kb + ns
            elif t < 0.8:
                A, n = ilu_split_matrix(g)
            else:
                n = r.randint(4, 10)
                A, _ = g.matrix(n, n, False, style="pow2", kind=r.choice(["sparse", "band", "arrow", "dense"]))
                for kk in list(A):
                    if kk[0] != kk[1] and r.random() < 0.25:
                        A[kk] = (A[kk][0] * 2.0 ** -20, 0.0)
            annz = len(A)
            relax = r.randint(1, 6)
            tune = [r.randint(1, 6), relax, r.randint(relax, 8), r.randint(1, 3), r.randint(1, 3), 30, r.randint(relax, 8)]
            opts = {"iludefault": 0, "ColPerm": NATURAL if t < 0.6 else r.choice([NATURAL, NATURAL, NATURAL, COLAMD]), "Equil": 0, "RowPerm": 0, "u": float(r.choice([1.0, 0.5, 0.125])),
                    "DropRule": r.choice([0, 1, 1, 1]), "DropTol": float(r.choice([2.0 ** -10, 2.0 ** -10, 2.0 ** -4])), "FillFactor": 40.0, "Sym": r.choice([0, 0, 1])}
            B = g.rhs_for(A, n, 1, cplx)
            lines = ["tune " + " ".join(map(str, tune))] + g.mat_lines(A, n, n, "NC", cplx) + g.rhs_lines(B, n, 1, n, cplx) + opt_lines(opts)
            lines += gssvx_block(work=None, events=3, fn="gsisx") + ["cursors"]
            est = query_estimate(n, n, annz, tune[0], 8, DWORD[ty]) + 60 * n * DWORD[ty] + 6000
            nruns = min(3 * n, 45)
            for kcur in range(nruns):
                delta = r.choice([0, 0, 0, 0, -1, 1])
                mode = ["user0", "user4", "sys"][(kcur + i) % 3] if r.random() < 0.8 else r.choice(["user0", "user4"])
                lines += ["destroy LU"] + g.rhs_lines(B, n, 1, n, cplx) + ["fillfrom %d %d" % (kcur, delta)]
                if mode == "sys":
                    lines += gssvx_block(work=None, events=1, fn="gsisx")
                else:
                    lines += gssvx_block(work=(est, 0 if mode == "user0" else 4), events=1, fn="gsisx")
                    lines += ["destroy LUuser", "nowork"]
            lines += ["destroy LU"]
            lst.append({"id": "%s-ilucap-%05d-%s" % (prop, i, ty), "lines": lines, "n": n})
        out[ty] = lst
    return out


def fam_query(g, prop, count, types):
    """lwork = -1 on a context that holds earlier results (so that any side effect shows)"""
    out = {}
    for ty, k in split_types(count, types).items():
        cplx = is_cplx(ty)
        lst = []
        for i in range(k):
            n = g.r.randint(1, 7)
            # badly scaled in half of the cases: an earlier factorization then leaves equed = R / C / B, R, C in the caller's
            # objects, which the query must not touch
            A = sweep_matrix(g, ty, n) if g.r.random() < 0.5 else scaled_matrix(g, n, cplx, 8)
            n = max(k2[0] for k2 in A) + 1
            fn = g.r.choice(["gssvx", "gssvx", "gsisx"])
            ilu = fn == "gsisx"
            B = g.rhs_for(A, n, 1, cplx)
            opts = {"iludefault" if ilu else "default": 0, "ColPerm": g.r.choice([NATURAL, COLAMD, MMD_ATA]), "Equil": g.r.choice([0, 1, 1]),
                    "Trans": g.r.choice([0, 1]), "PivotGrowth": g.r.choice([0, 1]), "Cond": g.r.choice([0, 1])}
            if ilu:
                opts["RowPerm"] = g.r.choice([0, 1])
            lines = ["tune " + " ".join(map(str, g.tune()))] + g.mat_lines(A, n, n, g.r.choice(["NC", "NR"]), cplx) + g.rhs_lines(B, n, 1, n, cplx) + opt_lines(opts)
            if g.r.random() < 0.5:      # query on a fresh context, or after a real factorization
                lines += gssvx_block(work=None, fn=fn) + ["destroy LU"] + g.rhs_lines(B, n, 1, n, cplx)
            lines += gssvx_block(work=(-1, 0), events=3, fn=fn)
            lst.append({"id": "%s-query%s-%05d-%s" % (prop, "ilu" if ilu else "", i, ty), "lines": lines, "n": n})
        out[ty] = lst
    return out


def fam_failpos(g, prop, count, types):
    """library allocation: the k-th allocation request of the call returns NULL, for every k (one scenario each)"""
    out = {}
    for ty, kk in split_types(count, types).items():
        cplx = is_cplx(ty)
        lst = []
        for i in range(kk):
            n = g.r.randint(2, 5)
            A = arrow_matrix(n + g.r.choice([2, 2, 6, 9]), cplx) if g.r.random() < 0.5 else sweep_matrix(g, ty, n)
            n = max(k[0] for k in A) + 1
            fn = g.r.choice(["gssvx", "gssvx", "gsisx"])
            ilu = fn == "gsisx"
            B = g.rhs_for(A, n, 1, cplx)
            tune = g.tune(); tune[5] = 1
            opts = {"iludefault" if ilu else "default": 0, "ColPerm": NATURAL, "Equil": 0}
            if ilu:
                opts["RowPerm"] = 0
            head = ["tune " + " ".join(map(str, tune))] + g.mat_lines(A, n, n, "NC", cplx) + g.rhs_lines(B, n, 1, n, cplx) + opt_lines(opts)
            # "@expand": only the allocation requests made by ?expand (factor-growth requests) are failed;
            # sticky 0 = that one request fails (a smaller retry may succeed), 1 = every request from the k-th on
            for sticky in (0, 1):
                for k in range(1, 10 if n <= 7 else 22):
                    lines = list(head) + ["failalloc @expand 0 %d %d" % (k, sticky)] + gssvx_block(work=None, events=3, fn=fn) + ["nofail"]
                    lst.append({"id": "%s-failpos%s-%03dk%02ds%d-%s" % (prop, "ilu" if ilu else "", i, k, sticky, ty), "lines": lines, "n": n})
        out[ty] = lst
    return out


# ----------------------------------------------------------------------------- C05 / C06
def scaled_matrix(g, n, cplx, spread, mode=None):
    """power-of-two valued matrix with rows / columns scaled by powers of two (exact equilibration, outcomes N/R/C/B)"""
    r = g.r
    if r.random() < 0.5:
        A = g.lu_product(n, cplx)
    else:
        A, _ = g.matrix(n, n, cplx, style="pow2", kind=r.choice(["dense", "sparse", "band", "arrow", "zerodiag"]))
    mode = mode or r.choice(["none", "rows", "cols", "both"])
    rs = [2.0 ** r.randint(-spread, spread) if mode in ("rows", "both") else 1.0 for _ in range(n)]
    cs = [2.0 ** r.randint(-spread, spread) if mode in ("cols", "both") else 1.0 for _ in range(n)]
    return {(i, j): (v[0] * rs[i] * cs[j], v[1] * rs[i] * cs[j]) for (i, j), v in A.items()}


def gssvx_opts(g, fn="gssvx", **over):
    r = g.r
    o = {"default": 0, "ColPerm": r.choice(ORDERINGS[:4]), "u": float(r.choice([1.0, 1.0, 0.5, 0.125, 0.0])), "Sym": 1 if r.random() < 0.15 else 0,
         "Equil": r.choice([0, 1, 1]), "Trans": r.choice([0, 1, 2]), "IterRefine": r.choice([0, 0, 1, 2, 3]),
         "PivotGrowth": r.choice([0, 1]), "Cond": r.choice([0, 1])}
    o.update(over)
    return o


def fam_gssvx(g, prop, count, types, nmax=7, spread=8):
    out = {}
    for ty, k in split_types(count, types).items():
        cplx = is_cplx(ty)
        lst = []
        for i in range(k):
            n = g.r.randint(1, nmax)
            A = scaled_matrix(g, n, cplx, g.r.choice([0, 3, spread]))
            o = gssvx_opts(g)
            nrhs = g.r.choice([1, 1, 2, 3])
            fmt = g.r.choice(["NC", "NR"])
            B = g.rhs_for(A, n, nrhs, cplx, op=o["Trans"] if (cplx or o["Trans"] != 2) else 1)
            ldb = n + g.r.choice([0, 2])
            ldx = n + g.r.choice([0, 0, 1, 3])            # B and X need not share a leading dimension
            lines = ["tune " + " ".join(map(str, g.tune()))] + g.mat_lines(A, n, n, fmt, cplx) + g.rhs_lines(B, n, nrhs, ldb, cplx, ldx=ldx) + opt_lines(o)
            lines += gssvx_block(work=None, events=0) + ["destroy all", "ledger"]
            # complex data, row storage, conjugate transpose: kept in a family of its own (known finding, DESIGN 9.15)
            fam = "gssvxNRconj" if (cplx and fmt == "NR" and o["Trans"] == 2) else "gssvx"
            lst.append({"id": "%s-%s-%05d-%s" % (prop, fam, i, ty), "lines": lines, "n": n})
        out[ty] = lst
    return out


FACT = {"DOFACT": 0, "SamePattern": 1, "SamePattern_SameRowPerm": 2, "FACTORED": 3}


def fam_factored(g, prop, count, types):
    """factor once with equilibration on a matrix scaled so that each outcome N / R / C / B occurs, then solve with the
    supplied factors (Fact = FACTORED) for every Trans with fresh right-hand sides; the scale-factor array that the
    documentation calls 'not accessed' for that equed holds illegal values"""
    out = {}
    for ty, k in split_types(count, types).items():
        cplx = is_cplx(ty)
        lst = []
        for i in range(k):
            r = g.r
            n = r.randint(2, 6)
            mode = ["none", "rows", "cols", "both"][i % 4]
            A = scaled_matrix(g, n, cplx, 8, mode=mode)
            fmt = r.choice(["NC", "NC", "NR"])
            o = gssvx_opts(g, Equil=1, IterRefine=r.choice([0, 1]))
            if cplx and fmt == "NR" and o["Trans"] == 2:
                o["Trans"] = 1
            B = g.rhs_for(A, n, 1, cplx, op=o["Trans"] if (cplx or o["Trans"] != 2) else 1)
            lines = ["tune " + " ".join(map(str, g.tune()))] + g.mat_lines(A, n, n, fmt, cplx) + g.rhs_lines(B, n, 1, n, cplx) + opt_lines(o)
            lines += gssvx_block(work=None, events=0) + ["requireok"]
            for tr in r.sample([0, 1, 2], 2):
                if cplx and fmt == "NR" and tr == 2:
                    tr = 1
                nrhs = r.choice([1, 2])
                Bk = g.rhs_for(A, n, nrhs, cplx)
                lines += ["poisonscale"] + opt_lines({"Fact": 3, "Trans": tr, "IterRefine": r.choice([0, 1])}) + g.rhs_lines(Bk, n, nrhs, n + r.choice([0, 1]), cplx) + gssvx_block(work=None, events=0)
            lines += ["destroy all", "ledger"]
            lst.append({"id": "%s-factored%s-%05d-%s" % (prop, mode, i, ty), "lines": lines, "n": n})
        out[ty] = lst
    return out


def history_scenario(g, sid, ty, hist, userwork=False, sym=False):
    """one TLC-generated history (list of [kind, change]) as a harness script on one sparsity pattern.
    sym: SymmetricMode = YES on a pattern of order 8..16 with wide relaxed supernodes (the tree is then not postordered and
    ordering, tree and relaxed supernodes of the first call are state that the reuse calls depend on)"""
    r = g.r
    cplx = is_cplx(ty)
    if sym:
        n = r.randint(8, 16)
        dens = r.uniform(0.05, 0.3)
        P = {(a, a) for a in range(n)} | {(a, b) for a in range(n) for b in range(n) if r.random() < dens}
        if r.random() < 0.5:
            P |= {(b, a) for (a, b) in P}
        A = {kk: ((8.0 if kk[0] == kk[1] else float(r.choice([1, -1, 0.5, 2]))), 0.0) for kk in P}
        relax = r.choice([4, 6, 8, 10, 12])
        tune = [r.randint(1, 4), relax, r.randint(relax, 14), r.randint(1, 4), r.randint(1, 3), r.choice([1, 2, 30]), r.randint(1, 6)]
        o = gssvx_opts(g, IterRefine=r.choice([0, 1]), Sym=1, ColPerm=r.choice([NATURAL, NATURAL, MMD_AT_PLUS_A, MMD_ATA, COLAMD]), u=float(r.choice([1.0, 0.5, 0.125])))
    else:
        n = r.randint(2, 6)
        A = scaled_matrix(g, n, cplx, r.choice([0, 2, 8, 8]))       # spread 8: equilibration really happens (equed R / C / B)
        tune = g.tune()
        tune[5] = r.choice([1, 2, 30])
        o = gssvx_opts(g, IterRefine=r.choice([0, 1]))
    pattern = sorted(A)
    fmt = r.choice(["NC", "NC", "NR"])
    if cplx and fmt == "NR" and o["Trans"] == 2:
        o["Trans"] = 1
    lines = ["tune " + " ".join(map(str, tune))] + g.mat_lines(A, n, n, fmt, cplx)
    B = g.rhs_for(A, n, 1, cplx, op=o["Trans"] if (cplx or o["Trans"] != 2) else 1)
    lines += g.rhs_lines(B, n, 1, n, cplx) + opt_lines(o)
    cur = dict(A)
    first = True
    for kind, change in hist:
        if not first:
            lines.append("requireok")
        if kind != "FACTORED":
            # caller action on the values (same pattern)
            if change == "unrelated":
                cur = {k: g.value("pow2", cplx) for k in pattern}
            elif change == "perturb":
                cur = {k: (v[0] * (1 + 2.0 ** -20), v[1] * (1 + 2.0 ** -20)) for k, v in cur.items()}
            elif change == "rescale":
                rs = [2.0 ** r.randint(-3, 3) for _ in range(n)]
                cur = {k: (v[0] * rs[k[0]], v[1] * rs[k[0]]) for k, v in cur.items()}
            if change in ("unrelated", "perturb", "rescale", "same") and not first:
                # (re)load the caller's values: an earlier call may have equilibrated A in place
                ml = g.mat_lines(cur, n, n, fmt, cplx)
                lines.append("newvals " + ml[3])
            if change == "zeropiv" and not first:
                lines.append("mutate zeropiv %d" % r.randint(0, n - 1))
            if change == "shrinkpiv" and not first:
                lines.append("mutate shrinkpiv %d %s" % (r.randint(0, n - 1), hx(2.0 ** -r.randint(3, 12))))
            if kind in ("DOFACT", "SamePattern") and not first:
                lines.append("destroy LU")
        tr = r.choice([0, 1] if (cplx and fmt == "NR") else [0, 1, 2])     # (complex, NR, CONJ) is a known finding of C05
        if kind == "FACTORED" and r.random() < 0.7:
            lines.append("poisonscale")        # R (C) is "not accessed" unless equed says it was used
        lines += opt_lines({"Fact": FACT[kind], "Trans": tr})
        Bk = g.rhs_for(A, n, 1, cplx)          # any right-hand side
        lines += g.rhs_lines(Bk, n, 1, n, cplx)
        lines += gssvx_block(work=None, events=0)
        first = False
    lines += ["destroy all", "ledger"]
    return {"id": sid, "lines": lines, "n": n}


# ----------------------------------------------------------------------------- C18
def screen_scenario(g, sid, ty, routine, corrupts, mode, plain=False, rep=0):
    """an otherwise valid call of `routine` with the named single-argument corruptions.  Each corruption names a class of
    illegal values (non-positive, outside the enumeration, below n, ...): which member is used is drawn per scenario
    (plain = the first member and the plainest base call)"""
    r = g.r
    cplx = is_cplx(ty)
    n = r.randint(2, 5)
    nrhs = 2 if plain else r.choice([1, 2, 2, 3])
    A = scaled_matrix(g, n, cplx, 2)
    B = g.rhs_for(A, n, nrhs, cplx)
    fmt = r.choice(["NC", "NR"]) if routine in ("gssv", "gssvx", "gsisx") else "NC"       # the drivers accept both orientations
    ldb = n + 1 if plain else n + r.choice([0, 1, 3])
    lines = ["tune " + " ".join(map(str, g.tune()))] + g.mat_lines(A, n, n, fmt, cplx) + g.rhs_lines(B, n, nrhs, ldb, cplx)
    ilu = routine == "gsisx"
    base = {"iludefault" if ilu else "default": 0, "ColPerm": NATURAL, "Equil": 1}
    if not plain:
        # the "otherwise valid call" is any valid call: orderings, transposes, refinement, estimates, a caller workspace
        base["ColPerm"] = r.choice([NATURAL, MMD_ATA, MMD_AT_PLUS_A, COLAMD])
        # (a later call with supplied factors passes R and C: the first call must have computed them)
        base["Equil"] = 1 if mode in (3, True) else r.choice([0, 1, 1])
        if routine in ("gssvx", "gsisx"):
            base["Trans"] = r.choice([0, 0, 1, 2])
            base["Cond"] = r.choice([0, 1]); base["PivotGrowth"] = r.choice([0, 1])
            if not ilu:
                base["IterRefine"] = r.choice([0, 1, 2, 3])
    lines += opt_lines(base)
    work = None
    if not plain and routine in ("gssvx", "gsisx") and r.random() < 0.3:
        work = (40000, r.choice([0, 4]))
    if routine != "gssv":
        # a valid factorization first: the later call finds factors, permutations, scalings in place
        lines += gssvx_block(work=work, fn="gsisx" if ilu else "gssvx")
        lines += g.rhs_lines(B, n, nrhs, ldb, cplx)
    if routine == "trsv":
        lines.append("vecx %d 1 " % n + " ".join((hx(1.0) + (" " + hx(0.0) if cplx else "")) for _ in range(n)))
    if mode is True:
        mode = 3
    if mode == 3:
        # the equed letter decides which of the scale factor arrays is an input at all (SluScreen!EffectiveEq)
        eq = "B"
        if not plain:
            if "R.nonpos" in corrupts and "C.nonpos" not in corrupts:
                eq = ["R", "B", "R", "B", "C", "N"][(rep // 2) % 6]
            elif "C.nonpos" in corrupts and "R.nonpos" not in corrupts:
                eq = ["C", "B", "C", "B", "R", "N"][(rep // 2) % 6]
            else:
                eq = r.choice(["B", "B", "R", "C", "N"])
        lines += ["seteq " + eq] + opt_lines({"Fact": 3})
    elif mode in (1, 2):
        lines += opt_lines({"Fact": mode})          # refactorization with the structures of the first call in place
    for c in corrupts:
        # the members of a class are taken in turn (classes have at most 5 members), the rest of the variant number is drawn
        lines.append("corrupt %s %d" % (c, 0 if plain else 60 * r.randrange(0, 16) + (rep % 60)))
    arg = {"gstrs": " %d" % (0 if plain else r.choice([0, 1, 2])), "gsrfs": " %d" % (0 if plain else r.choice([0, 1, 2])), "gscon": " 1" if plain else r.choice([" 1", " I"])}.get(routine, "")
    lines.append("call screen %s%s" % (routine, arg))
    lines += ["destroy all", "ledger"]
    return {"id": sid, "lines": lines, "n": n}


# ----------------------------------------------------------------------------- C19 lifecycles
def lifecycle_scenario(g, sid, ty, life):
    """one TLC-generated lifecycle (SluLife) as a harness script"""
    r = g.r
    cplx = is_cplx(ty)
    n = r.randint(3, 6)
    A = sweep_matrix(g, ty, n)
    pattern = sorted(A)
    fmt = r.choice(["NC", "NC", "NR"])
    tune = g.tune(); tune[5] = r.choice([1, 1, 2, 30])
    B = g.rhs_for(A, n, 2, cplx)

    def vals(d):
        return "newvals " + g.mat_lines(d, n, n, fmt, cplx)[3]
    good = vals(A)
    c0 = min(j for (_, j) in pattern)
    sing = vals({k: ((0.0, 0.0) if k[1] == r.choice(range(n)) else v) for k, v in A.items()})
    allzero_col = r.choice(range(n))
    sing = vals({k: ((0.0, 0.0) if k[1] == allzero_col else v) for k, v in A.items()})
    rhs = g.rhs_lines(B, n, 2, n, cplx)
    est = query_estimate(n, n, len(A), tune[0], tune[5], DWORD[ty])
    lines = ["tune " + " ".join(map(str, tune))] + g.mat_lines(A, n, n, fmt, cplx) + rhs
    # a second, independent problem for calls that hand nothing to the caller
    A2, _ = g.matrix(n, n, cplx, style="pow2")
    lines += ["use 1"] + g.mat_lines(A2, n, n, "NC", cplx) + ["use 0"]
    xo = lambda: {"default": 0, "ColPerm": r.choice([NATURAL, COLAMD, MMD_ATA, MMD_AT_PLUS_A]), "Equil": r.choice([0, 1]), "IterRefine": r.choice([0, 1]),
                  "PivotGrowth": r.choice([0, 1]), "Cond": r.choice([0, 1]), "Trans": r.choice([0, 1]), "Fact": 0}
    io = lambda: {"iludefault": 0, "ColPerm": r.choice([NATURAL, COLAMD]), "RowPerm": r.choice([0, 1]), "DropRule": r.choice([0, 9]), "Fact": 0}
    for a in life:
        if a in ("gssv", "gssv_singular"):
            lines += [sing if a.endswith("singular") else good] + rhs + opt_lines({"default": 0, "ColPerm": r.choice(ORDERINGS[:4])}) + ["nowork", "call gssv"]
        elif a in ("gssvx", "gssvx_singular"):
            lines += [sing if a.endswith("singular") else good] + rhs + opt_lines(xo()) + gssvx_block(work=None)
        elif a == "gssvx_userwork":
            lines += [good] + rhs + opt_lines(xo()) + gssvx_block(work=(3 * est + 2000, r.choice([0, 4])))
        elif a == "gssvx_shortwork":
            lines += [good] + rhs + opt_lines(xo()) + gssvx_block(work=(4 * r.randint(1, max(2, est // 6)), r.choice([0, 4]))) + ["destroy LUauto", "nowork"]
        elif a == "gssvx_failalloc":
            lines += [good] + rhs + opt_lines(xo()) + ["failalloc @expand 0 %d 1" % r.randint(1, 5)] + gssvx_block(work=None) + ["nofail", "destroy LUauto"]
        elif a in ("gstrf", "gstrf_singular"):
            lines += [sing if a.endswith("singular") else good] + opt_lines({"default": 0, "ColPerm": r.choice([NATURAL, COLAMD])}) + ["nowork", "call gstrf"]
        elif a == "gsisx":
            lines += [good] + rhs + opt_lines(io()) + gssvx_block(work=None, fn="gsisx")
        elif a == "gsisx_shortwork":
            lines += [good] + rhs + opt_lines(io()) + gssvx_block(work=(4 * r.randint(1, max(2, est // 6)), 0), fn="gsisx") + ["destroy LUauto", "nowork"]
        elif a == "samepattern":
            lines += ["requireok", "destroy LU", vals({k: g.value("pow2", cplx) for k in pattern})] + rhs + opt_lines({"Fact": 1}) + gssvx_block(work=None)
        elif a in ("samerowperm", "samerowperm_singular"):
            lines += ["requireok", sing if a.endswith("singular") else vals({k: (v[0] * 2, v[1] * 2) for k, v in A.items()})] + rhs + opt_lines({"Fact": 2}) + gssvx_block(work=None)
        elif a == "factored":
            lines += ["requireok"] + rhs + opt_lines({"Fact": 3, "Trans": r.choice([0, 1])}) + ["call gssvx"]
        elif a == "gstrs":
            lines += ["requireok"] + rhs + ["call gstrs %d" % r.choice([0, 1])]
        elif a == "gscon":
            lines += ["requireok", "call gscon %s" % r.choice(["1", "I"])]
        elif a == "query":
            lines += rhs + opt_lines({"Fact": 0}) + gssvx_block(work=(-1, 0)) + ["nowork"]
        elif a == "order":
            lines += ["use 1"] + opt_lines({"default": 0, "Sym": r.choice([0, 1])}) + ["call order %d" % r.choice(ORDERINGS[:4]), "use 0"]
        elif a == "equ":
            lines += ["use 1", "call equ", "use 0"]
        elif a == "rejected":
            lines += rhs + ["corrupt " + r.choice(["A.dtype", "B.lda", "opt.Trans", "lwork"]), "call screen gssvx"]
        elif a == "destroyLU":
            lines += ["destroy LU"]
        elif a == "destroyLUuser":
            lines += ["destroy LUuser", "nowork"]
    lines += ["destroy LUauto", "use 1", "destroy all", "use 0", "destroy all", "ledger"]
    return {"id": sid, "lines": lines, "n": n}


# ----------------------------------------------------------------------------- C11
FMT = {"d": (-1022, -1074, 1023), "z": (-1022, -1074, 1023), "s": (-126, -149, 127), "c": (-126, -149, 127)}


def fam_equ(g, prop, count, types, float_slice=False):
    """?gsequ + ?laqgs on matrices whose entries are +-2^e over the whole exponent range of the type (domain DL)"""
    out = {}
    for ty, k in split_types(count, types).items():
        cplx = is_cplx(ty)
        emin, dmin, emax = FMT[ty]
        lst = []
        for i in range(k):
            r = g.r
            m, n = r.randint(1, 4), r.randint(1, 4)
            style = r.choice(["mid", "mid", "wide", "extreme", "rows", "cols", "thresh"])
            # thresh: the largest entry sits at / next to the SMALL and LARGE thresholds of ?laqgs (safe minimum / precision and its
            # reciprocal), all entries within a factor 8 of it (so that the decision depends on the threshold comparison alone)
            pexp = {"s": 23, "c": 23, "d": 52, "z": 52}[ty]
            tbase = r.choice([1, -1]) * (emin + pexp) + r.choice([-2, -1, -1, 0, 0, 0, 1, 1, 2])
            rowsh = [r.randint(-40, 40) if style in ("rows", "wide") else 0 for _ in range(m)]
            colsh = [r.randint(-40, 40) if style in ("cols", "wide") else 0 for _ in range(n)]
            A = {}
            for ii in range(m):
                for jj in range(n):
                    if r.random() < 0.25:
                        continue
                    if style == "thresh":
                        e = tbase - r.choice([0, 0, 1, 2, 3])
                    elif style == "extreme":
                        e = r.choice([dmin, dmin + 1, emin - 1, emin, emin + 1, -1, 0, 1, emax - 1, emax, r.randint(emin, emax)])
                    else:
                        e = r.randint(-6, 6) + rowsh[ii] + colsh[jj]
                    if cplx and e >= emax:
                        e = emax - 1
                    v = (-1.0 if r.random() < 0.5 else 1.0) * 2.0 ** e
                    if float_slice:
                        v *= r.uniform(1.0, 1.99)
                    if not cplx:
                        A[(ii, jj)] = (v, 0.0)
                    else:
                        kind = r.choice(["re", "im", "both"])
                        A[(ii, jj)] = (v, 0.0) if kind == "re" else ((0.0, v) if kind == "im" else (v, -v if r.random() < 0.5 else v))
            if r.random() < 0.15 and m > 1:      # an empty row
                z = r.randrange(m); A = {kk: vv for kk, vv in A.items() if kk[0] != z}
            if r.random() < 0.15 and n > 1:      # an empty column
                z = r.randrange(n); A = {kk: vv for kk, vv in A.items() if kk[1] != z}
            if r.random() < 0.1:                 # explicit zeros are stored entries too
                A[(r.randrange(m), r.randrange(n))] = (0.0, 0.0)
            lines = g.mat_lines(A, m, n, "NC", cplx) + ["call equ", "destroy all", "ledger"]
            lst.append({"id": "%s-equ%s-%05d-%s" % (prop, "f" if float_slice else style, i, ty), "lines": lines, "n": n})
        out[ty] = lst
    return out


# ----------------------------------------------------------------------------- C12 / C13
def fam_cond(g, prop, count, types, nmax=7):
    """systems over a wide range of condition numbers (graded diagonals / triangles with power-of-two entries, plus the
    generic ones), condition estimate, growth factor and refinement switched on"""
    out = {}
    for ty, k in split_types(count, types).items():
        cplx = is_cplx(ty)
        lst = []
        for i in range(k):
            r = g.r
            n = r.randint(1, nmax)
            kind = r.choice(["graded", "graded", "generic", "generic", "float"])
            if kind == "graded":
                A = {}
                span = r.choice([4, 20, 60, 100 if ty in "dz" else 40])
                for ii in range(n):
                    A[(ii, ii)] = (2.0 ** r.randint(-span, 0) * r.choice([1, -1]), 0.0)
                    for jj in range(ii + 1, n):
                        if r.random() < 0.4:
                            A[(ii, jj) if r.random() < 0.5 else (jj, ii)] = (2.0 ** r.randint(-span, 0), 0.0)
            elif kind == "generic":
                A = scaled_matrix(g, n, cplx, r.choice([0, 4]))
            else:
                A, _ = g.matrix(n, n, cplx, style="float")
            o = gssvx_opts(g, Cond=1, PivotGrowth=r.choice([0, 1, 1]), IterRefine=r.choice([0, 1, 2, 2]), Equil=r.choice([0, 0, 1]))
            fmt = r.choice(["NC", "NC", "NR"])
            if cplx and fmt == "NR" and o["Trans"] == 2:
                o["Trans"] = 1
            nrhs = r.choice([1, 1, 2, 0])                  # no right-hand side at all: factor, estimate, report
            B = g.rhs_for(A, n, nrhs, cplx, op=o["Trans"] if (cplx or o["Trans"] != 2) else 1)
            if nrhs and r.random() < 0.2:
                B[0] = [(0.0, 0.0)] * n                     # a zero column
            lines = ["tune " + " ".join(map(str, g.tune()))] + g.mat_lines(A, n, n, fmt, cplx) + g.rhs_lines(B, n, nrhs, n, cplx) + opt_lines(o)
            lines += gssvx_block(work=None, events=8) + ["destroy all", "ledger"]
            lst.append({"id": "%s-cond%s-%05d-%s" % (prop, kind, i, ty), "lines": lines, "n": n})
        out[ty] = lst
    return out


def fam_slowrefine(g, prop, count, types):
    """refinement that needs all five steps: a tiny leading diagonal entry accepted as pivot (DiagPivotThresh = 0, natural
    ordering, no equilibration) makes the factorization inaccurate by a factor eps * 2^k; k is swept so that BERR is
    halved five times without reaching eps"""
    out = {}
    for ty, cnt in split_types(count, types).items():
        cplx = is_cplx(ty)
        lst = []
        for i in range(cnt):
            r = g.r
            n = r.randint(3, 8)
            bits = 53 if ty in "dz" else 24
            k = bits - r.randint(2, 12)
            A = {}
            for a in range(n):
                for b in range(n):
                    if a == b or r.random() < 0.6:
                        v = r.uniform(0.5, 2.0) * r.choice([1, -1])
                        A[(a, b)] = (v, r.uniform(-1, 1) if cplx else 0.0)
            for a in range(r.choice([1, 1, 2])):
                A[(a, a)] = (2.0 ** -k * r.uniform(1, 2), 0.0)
            if ty in "sc":
                A = {kk: (f32(v[0]), f32(v[1])) for kk, v in A.items()}
            tr = r.choice([0, 1, 2])
            fmt = r.choice(["NC", "NC", "NR"])
            if cplx and fmt == "NR" and tr == 2:
                tr = 1
            o = {"default": 0, "ColPerm": NATURAL, "Equil": 0, "u": 0.0, "IterRefine": r.choice([1, 2, 2]), "Trans": tr, "Cond": r.choice([0, 1]), "PivotGrowth": r.choice([0, 1])}
            nrhs = r.choice([1, 2])
            B = [[(r.uniform(-1, 1), r.uniform(-1, 1) if cplx else 0.0) for _ in range(n)] for _ in range(nrhs)]
            if ty in "sc":
                B = [[(f32(v[0]), f32(v[1])) for v in col] for col in B]
            lines = ["tune " + " ".join(map(str, g.tune()))] + g.mat_lines(A, n, n, fmt, cplx) + g.rhs_lines(B, n, nrhs, n, cplx) + opt_lines(o)
            lines += gssvx_block(work=None, events=8) + ["destroy all", "ledger"]
            lst.append({"id": "%s-slowrefine-%05d-%s" % (prop, i, ty), "lines": lines, "n": n})
        out[ty] = lst
    return out


def fam_cond_big(g, prop, count, types):
    """condition estimate and growth factor on systems of order 8..14 factored with narrow supernodes (maxsuper 2..3, no
    relaxation): the estimator's solves run through several multi-column supernodes and singletons per call"""
    out = {}
    for ty, k in split_types(count, types).items():
        cplx = is_cplx(ty)
        lst = []
        for i in range(k):
            r = g.r
            n = r.randint(8, 14)
            A = g.lu_product(n, cplx) if r.random() < 0.6 else scaled_matrix(g, n, cplx, r.choice([0, 3]))
            tune = [r.randint(1, 4), 1, r.choice([2, 2, 3]), r.randint(1, 4), r.randint(1, 3), 30, r.randint(1, 6)]
            o = gssvx_opts(g, Cond=1, PivotGrowth=1, IterRefine=r.choice([0, 1]), Equil=r.choice([0, 1]), ColPerm=NATURAL)
            fmt = r.choice(["NC", "NC", "NR"])
            if cplx and fmt == "NR" and o["Trans"] == 2:
                o["Trans"] = 1
            B = g.rhs_for(A, n, 1, cplx, op=o["Trans"] if (cplx or o["Trans"] != 2) else 1)
            lines = ["tune " + " ".join(map(str, tune))] + g.mat_lines(A, n, n, fmt, cplx) + g.rhs_lines(B, n, 1, n, cplx) + opt_lines(o)
            lines += gssvx_block(work=None, events=0) + ["destroy all", "ledger"]
            lst.append({"id": "%s-condbig-%05d-%s" % (prop, i, ty), "lines": lines, "n": n})
        out[ty] = lst
    return out


def fam_lacon(g, prop, count, types):
    """the estimator driven with an explicit small-integer operator (real types, orders 1, 2, 4, 8)"""
    out = {}
    for ty, k in split_types(count, types).items():
        if is_cplx(ty):
            continue
        lst = []
        for i in range(k):
            n = g.r.choice([1, 2, 2, 4, 4, 8])
            A = {(ii, jj): (float(g.r.choice([0, 0, 1, -1, 2, -2, 3, 4, 0.5, -0.5])), 0.0) for ii in range(n) for jj in range(n) if g.r.random() < 0.8}
            if not A:
                A = {(0, 0): (1.0, 0.0)}
            lines = g.mat_lines(A, n, n, "NC", False) + ["call lacon", "destroy all"]
            lst.append({"id": "%s-lacon-%05d-%s" % (prop, i, ty), "lines": lines, "n": n})
        out[ty] = lst
    return out


# ----------------------------------------------------------------------------- C10
def block_pattern(g, nmax=20):
    """reducible square pattern: a direct sum of small graphs of different kinds (isolated vertices, paths, cycles, stars,
    tridiagonal and dense blocks, a column that shares no row with any other), in random order and with a random relabelling or not:
    the ordering graph of A'A / A'+A then has several components that the minimum-degree codes finish at different times"""
    r = g.r
    P = set(); n = 0
    kinds = ["iso", "iso", "path", "cycle", "star", "tri", "dense", "arrow", "pair"]
    for _ in range(r.randint(2, 7)):
        kind = r.choice(kinds)
        k = 1 if kind == "iso" else 2 if kind == "pair" else r.randint(3, 6)
        if n + k > nmax:
            break
        o = n
        for a in range(k):
            P.add((o + a, o + a))
        if kind in ("path", "tri", "pair"):
            for a in range(k - 1):
                P.add((o + a + 1, o + a))
                if kind != "path" or r.random() < 0.5:
                    P.add((o + a, o + a + 1))
        elif kind == "cycle":
            for a in range(k):
                P.add((o + (a + 1) % k, o + a))
        elif kind in ("star", "arrow"):
            for a in range(1, k):
                P.add((o + a, o)); 
                if kind == "arrow":
                    P.add((o, o + a))
        elif kind == "dense":
            P |= {(o + a, o + b) for a in range(k) for b in range(k)}
        n += k
    if n == 0:
        P = {(0, 0)}; n = 1
    if r.random() < 0.3:             # a diagonal entry missing here and there (zero diagonal is legal for the orderings)
        d = r.randrange(n)
        if len([1 for kk in P if kk[1] == d]) > 1:
            P.discard((d, d))
    if r.random() < 0.5:             # symmetric relabelling: components interleaved
        q = list(range(n)); r.shuffle(q)
        P = {(q[a], q[b]) for (a, b) in P}
    return n, P


def fam_order(g, prop, count, types=None, nmax=7, exhaustive3=False, blocks=0):
    """get_perm_c + sp_preorder, getata, at_plus_a on many patterns; each ordering call is repeated with other values
    on the same pattern (orderings depend on the pattern only); SymmetricMode on/off; reuse (Fact != DOFACT)"""
    r = g.r
    lst = []
    pats = []
    if exhaustive3:
        for bits in range(512):
            pats.append((3, 3, {(i, j) for i in range(3) for j in range(3) if bits >> (3 * i + j) & 1}))
    for i in range(count):
        m = r.randint(1, nmax); n = r.randint(1, nmax)
        if r.random() < 0.7:
            m = n
        P = g.pattern(m, n, r.choice(["dense", "sparse", "sparse", "diag+", "arrow", "band", "block", "zerodiag"]))
        if r.random() < 0.2 and m > 1:
            z = r.randrange(m); P = {k for k in P if k[0] != z}
        if r.random() < 0.2 and n > 1:
            z = r.randrange(n); P = {k for k in P if k[1] != z}
        if r.random() < 0.15:
            P |= {(r.randrange(m), j) for j in range(n)}          # a dense row
        pats.append((m, n, P))
    for i in range(blocks):
        nb, P = block_pattern(g)
        pats.append((nb, nb, P))
    for i, (m, n, P) in enumerate(pats):
        if not P:
            P = set()
        A = {k: (float(r.choice([1, 2, -1, 3])), 0.0) for k in P}
        A2 = {k: (float(r.choice([5, -7, 0.5])), 0.0) for k in P}
        lines = g.mat_lines(A, m, n, "NC", False)
        methods = [NATURAL, MMD_ATA, COLAMD, MY_PERMC] + ([MMD_AT_PLUS_A] if m == n else [])
        lines += ["call ata"] + (["call aplusat"] if m == n else [])
        for meth in (methods if exhaustive3 or r.random() < 0.3 else r.sample(methods, 2)):
            sym = 1 if (m == n and r.random() < 0.3) else 0
            lines += opt_lines({"default": 0, "Sym": sym, "Fact": 0})
            if meth == MY_PERMC:
                p = list(range(n)); r.shuffle(p)
                lines.append("permc " + " ".join(map(str, p)))
            lines.append("call order %d" % meth)
            # the same pattern with other values: the ordering must not change
            lines.append("newvals " + g.mat_lines(A2, m, n, "NC", False)[3])
            if meth == MY_PERMC:
                lines.append("permc " + " ".join(map(str, p)))
            lines.append("call order %d" % meth)
            if r.random() < 0.3:        # reuse: ordering and tree are inputs
                lines += opt_lines({"Fact": r.choice([1, 2])}) + ["call order %d" % meth]
            lines.append("newvals " + g.mat_lines(A, m, n, "NC", False)[3])
        lines += ["destroy all", "ledger"]
        lst.append({"id": "%s-order%s-%05d-d" % (prop, "3x3" if i < 512 and exhaustive3 else "", i), "lines": lines, "n": n})
    return {"d": lst}


def fam_order_big(g, prop, count):
    """orderings of patterns beyond the dense-row / dense-column thresholds of COLAMD (more than max(16, 10 sqrt(n))
    entries in a line needs n > 100): sparse band plus one or two nearly full rows and/or columns, columns whose only
    entries lie in the dense rows, empty columns; the ordering must still be a bijection, the tree postordered"""
    r = g.r
    lst = []
    for i in range(count):
        n = r.randint(101, 200)
        m = n
        P = set()
        for j in range(n):
            for d in (0, r.randint(1, 3), -r.randint(1, 3)):
                if 0 <= j + d < n and r.random() < 0.85:
                    P.add((j + d, j))
        drows = r.sample(range(n), r.choice([0, 1, 1, 2]))
        for dr in drows:
            P |= {(dr, j) for j in range(n) if r.random() < 0.97}
        dcols = r.sample(range(n), r.choice([0, 0, 1, 2]))
        for dc in dcols:
            P |= {(i2, dc) for i2 in range(n) if r.random() < 0.97}
        if drows:
            for j in r.sample(range(n), r.randint(1, 4)):          # columns that live in dense rows only
                P = {k for k in P if k[1] != j} | {(dr, j) for dr in drows if r.random() < 0.8}
                if not any(k[1] == j for k in P):
                    P.add((drows[0], j))
        if r.random() < 0.3:
            z = r.randrange(n); P = {k for k in P if k[1] != z}     # an empty column
        A = {k: (float(r.choice([1, 2, -1, 3])), 0.0) for k in P}
        lines = g.mat_lines(A, m, n, "NC", False)
        for meth in r.sample([COLAMD, COLAMD, MMD_ATA, MMD_AT_PLUS_A, NATURAL], 2):
            lines += opt_lines({"default": 0, "Sym": 0, "Fact": 0})
            lines.append("call order %d" % meth)
        lines += ["destroy all", "ledger"]
        lst.append({"id": "%s-orderbig-%05d-d" % (prop, i), "lines": lines, "n": n})
    return {"d": lst}


# ----------------------------------------------------------------------------- C14
def vec_line(cmd, vals, inc, cplx):
    return "%s %d %d " % (cmd, len(vals), inc) + " ".join(hx(v[0]) + ((" " + hx(v[1])) if cplx else "") for v in vals)


def small_vec(g, n, cplx):
    return [(float(g.r.choice([0, 1, -1, 2, -2, 3, 0.5])), float(g.r.choice([0, 0, 1, -1])) if cplx else 0.0) for _ in range(n)]


def fam_kernels(g, prop, count, types):
    """factor pairs produced by ?gstrf on exact-domain matrices (singleton and multi-column supernodes through the
    tuning seam), then sp_?trsv for every flag combination and spelling, ?gstrs for nrhs 1..4 with ldb > n;
    rectangular matrices for sp_?gemv / sp_?gemm with all alpha / beta, strides, poisoned padding"""
    out = {}
    for ty, k in split_types(count, types).items():
        cplx = is_cplx(ty)
        lst = []
        for i in range(k):
            r = g.r
            n = r.randint(1, 5)
            A = g.lu_product(n, cplx)
            tune = g.tune(); tune[1] = r.choice([1, 1, 2, 4]); tune[2] = max(tune[1], r.choice([1, 2, 5]))
            lines = ["tune " + " ".join(map(str, tune))] + g.mat_lines(A, n, n, "NC", cplx) + opt_lines({"default": 0, "ColPerm": r.choice([NATURAL, COLAMD, MMD_ATA])}) + ["call gstrf", "requireok"]
            combos = [(u, t, d) for u in "LU" for t in "NTC" for d in "UN"]
            for (u, t, d) in r.sample(combos, 5):
                if r.random() < 0.25:       # the documented lower-case spellings
                    u, t, d = u.lower(), t.lower(), d.lower()
                lines += [vec_line("vecx", small_vec(g, n, cplx), 1, cplx), "call trsv %s %s %s" % (u, t, d)]
            for _ in range(2):
                nrhs = r.randint(1, 4); ldb = n + r.choice([0, 1, 3])
                B = [small_vec(g, n, cplx) for _ in range(nrhs)]
                lines += g.rhs_lines(B, n, nrhs, ldb, cplx) + ["call gstrs %d" % r.choice([0, 1, 2])]
            # products with a rectangular matrix (second context)
            m2, n2 = r.randint(1, 5), r.randint(1, 5)
            A2, _ = g.matrix(m2, n2, cplx, style=r.choice(["small", "pow2"]), nonsingular_pattern=False)
            lines += ["use 1"] + g.mat_lines(A2, m2, n2, "NC", cplx)
            for _ in range(4):
                t = r.choice(["N", "N", "T", "C", "n", "t", "c"])
                notr = t in "Nn"
                lenx, leny = (n2, m2) if notr else (m2, n2)
                incx = r.choice([1, 2, -1, -2]) if notr else 1
                incy = 1 if notr else r.choice([1, 2, -1, -2])
                al = (float(r.choice([0, 1, -1, 2, 0.5])), float(r.choice([0, 0, 1])) if cplx else 0.0)
                be = (float(r.choice([0, 1, -1, 2, 0.5])), float(r.choice([0, 0, -1])) if cplx else 0.0)
                y = small_vec(g, leny, cplx)
                if be == (0.0, 0.0) and r.random() < 0.5:
                    y = [(float("nan"), float("nan"))] * leny        # beta = 0: y need not be set on input
                # negative increments: the vector is traversed backwards (BLAS convention); the harness stores it that way
                lines += [vec_line("vecx", small_vec(g, lenx, cplx), incx, cplx), vec_line("vecy", y, incy, cplx)]
                lines.append("call gemv %s %s %s" % (t, hx(al[0]) + ((" " + hx(al[1])) if cplx else ""), hx(be[0]) + ((" " + hx(be[1])) if cplx else "")))
            for _ in range(2):
                t = r.choice(["N", "T", "C"])
                notr = t == "N"
                rowsB, rowsC = (n2, m2) if notr else (m2, n2)
                nb = r.randint(1, 3); ldb = rowsB + r.choice([0, 2]); ldc = rowsC + r.choice([0, 1])
                Bv = [v for _ in range(nb) for v in (small_vec(g, rowsB, cplx) + [(9.0, 9.0 if cplx else 0.0)] * (ldb - rowsB))]
                Cv = [v for _ in range(nb) for v in (small_vec(g, rowsC, cplx) + [(7.0, 0.0)] * (ldc - rowsC))]
                al = (float(r.choice([1, -1, 2, 0.5])), 0.0)
                be = (float(r.choice([0, 1, -1, 2])), 0.0)
                lines += [vec_line("vecx", Bv, 1, cplx), vec_line("vecc", Cv, 1, cplx)]
                lines.append("call gemm %s %d %d %d %s %s" % (t, nb, ldb, ldc, hx(al[0]) + ((" " + hx(al[1])) if cplx else ""), hx(be[0]) + ((" " + hx(be[1])) if cplx else "")))
            lines += ["use 0", "destroy all", "use 1", "destroy all", "ledger"]
            lst.append({"id": "%s-kernels-%05d-%s" % (prop, i, ty), "lines": lines, "n": n})
        out[ty] = lst
    return out


def fam_kernels_big(g, prop, count, types):
    """factor pairs of order 8..14 with narrow supernodes (maxsuper 2..3, no relaxation): several multi-column supernodes
    and singletons, each with rows below its diagonal block, in one L -- the triangular kernels then run through every
    branch several times per call (state carried from one supernode to the next must be reset)"""
    out = {}
    for ty, k in split_types(count, types).items():
        cplx = is_cplx(ty)
        lst = []
        for i in range(k):
            r = g.r
            n = r.randint(8, 14)
            A = g.lu_product(n, cplx)
            tune = [r.randint(1, 4), 1, r.choice([2, 2, 3]), r.randint(1, 4), r.randint(1, 3), 30, r.randint(1, 6)]
            lines = ["tune " + " ".join(map(str, tune))] + g.mat_lines(A, n, n, "NC", cplx) + opt_lines({"default": 0, "ColPerm": NATURAL}) + ["call gstrf", "requireok"]
            combos = [(u, t, d) for u in "LU" for t in "NTC" for d in "UN"]
            for (u, t, d) in r.sample(combos, 6):
                lines += [vec_line("vecx", small_vec(g, n, cplx), 1, cplx), "call trsv %s %s %s" % (u, t, d)]
            for tr in (0, 1, 2):
                nrhs = r.randint(1, 3); ldb = n + r.choice([0, 2])
                B = [small_vec(g, n, cplx) for _ in range(nrhs)]
                lines += g.rhs_lines(B, n, nrhs, ldb, cplx) + ["call gstrs %d" % tr]
            lines += ["call gscon 1", "call gscon I", "destroy all", "ledger"]
            lst.append({"id": "%s-kernelsbig-%05d-%s" % (prop, i, ty), "lines": lines, "n": n})
        out[ty] = lst
    return out


# ----------------------------------------------------------------------------- C15
DROP_BASIC, DROP_PROWS, DROP_COLUMN, DROP_AREA, DROP_SECONDARY, DROP_DYNAMIC, DROP_INTERP = 1, 2, 4, 8, 0x0E, 0x10, 0x100


def fam_ilu(g, prop, count, types, nmax=8):
    """structurally nonsingular matrices (zero diagonals, singular leading blocks) through ?gsisx with every drop rule
    combination, tolerances, fill factors, norms, MILU variants, row-permutation option, Trans, orderings, tunings"""
    out = {}
    for ty, k in split_types(count, types).items():
        cplx = is_cplx(ty)
        lst = []
        for i in range(k):
            r = g.r
            n = r.randint(1, nmax)
            kind = r.choice(["lu", "zerodiag", "generic", "generic", "singlead", "float", "tree"])
            if kind == "tree":
                # larger sparse pattern whose column elimination tree has several leaves and short chains (relaxed
                # supernodes at leaves, also for subtrees that are not contiguous before postordering), small entries that
                # dropping removes, some zero diagonal entries
                n = r.randint(9, 18)
                A = {}
                for j in range(n):
                    if r.random() < 0.8:
                        A[(j, j)] = g.value("pow2", cplx)
                    for _ in range(r.choice([1, 1, 2, 3])):
                        i2 = r.randrange(n)
                        v = g.value("pow2", cplx)
                        sc = 2.0 ** -r.choice([0, 0, 6, 12])
                        A[(i2, j)] = (v[0] * sc, v[1] * sc)
                A = {k: v for k, v in A.items()}
                P = g.ensure_structurally_nonsingular(set(A), n)
                for k in P:
                    A.setdefault(k, g.value("pow2", cplx))
            elif kind == "lu":
                A = g.lu_product(n, cplx)
            elif kind == "float":
                A, _ = g.matrix(n, n, cplx, style="float")
            elif kind == "singlead":
                A, _ = g.matrix(n, n, cplx, style="pow2", kind="dense")
                if n >= 2:        # numerically singular leading 2x2 block
                    A[(0, 0)] = (1.0, 0.0); A[(0, 1)] = (2.0, 0.0); A[(1, 0)] = (2.0, 0.0); A[(1, 1)] = (4.0, 0.0)
            else:
                A, _ = g.matrix(n, n, cplx, style=r.choice(["pow2", "small"]), kind="zerodiag" if kind == "zerodiag" else None)
            nodrop = r.random() < 0.3
            rule = 0 if nodrop else r.choice([DROP_BASIC, DROP_BASIC | DROP_AREA, DROP_BASIC | DROP_PROWS, DROP_BASIC | DROP_COLUMN, DROP_BASIC | DROP_SECONDARY,
                                              DROP_BASIC | DROP_AREA | DROP_DYNAMIC, DROP_BASIC | DROP_PROWS | DROP_INTERP, DROP_BASIC | DROP_AREA | DROP_INTERP, DROP_PROWS, DROP_AREA, DROP_COLUMN | DROP_DYNAMIC])
            o = {"iludefault": 0, "ColPerm": r.choice([NATURAL, COLAMD, MMD_ATA, MMD_AT_PLUS_A]), "u": float(r.choice([1.0, 0.5, 0.125, 0.0625, 0.0])),
                 "DropRule": rule, "DropTol": 0.0 if nodrop else float(r.choice([0.0, 2.0 ** -10, 2.0 ** -4, 0.5])), "FillFactor": float(r.choice([1.0, 2.0, 10.0])),
                 "Norm": r.choice([0, 1, 2]), "MILU": r.choice([0, 0, 1, 2, 3]), "FillTol": float(r.choice([2.0 ** -7, 0.01, 2.0 ** -20])),
                 "RowPerm": r.choice([0, 0, 1]), "Trans": r.choice([0, 1, 2]), "Equil": r.choice([0, 1]), "PivotGrowth": r.choice([0, 1]), "Cond": r.choice([0, 1]),
                 "Sym": r.choice([0, 0, 1])}
            if r.random() < 0.3:
                o["MILUDim"] = float(r.choice([2.0, 3.0, 1.0]))
            fmt = r.choice(["NC", "NC", "NR"])
            if cplx and fmt == "NR" and o["Trans"] == 2:
                o["Trans"] = 1
            nrhs = r.choice([1, 2, 3])
            B = [small_vec(g, n, cplx) for _ in range(nrhs)]
            ldb = n + r.choice([0, 0, 2]); ldx = n + r.choice([0, 0, 1, 3])          # B and X need not share a leading dimension
            lines = ["tune " + " ".join(map(str, g.tune()))] + g.mat_lines(A, n, n, fmt, cplx) + g.rhs_lines(B, n, nrhs, ldb, cplx, ldx=ldx) + opt_lines(o)
            lines += gssvx_block(work=None, events=0, fn="gsisx") + ["destroy all", "ledger"]
            lst.append({"id": "%s-ilu%s%s-%05d-%s" % (prop, kind, "nodrop" if nodrop else "", i, ty), "lines": lines, "n": n})
        out[ty] = lst
    return out


def fam_ilu_reuse(g, prop, count, types):
    """incomplete factorization histories on one pattern: DOFACT, then SamePattern_SameRowPerm / SamePattern with other
    values (what is dropped, hence the supernode partition and the fill, changes from call to call), then a solve with
    the supplied factors; every call is held to the clauses of a single call"""
    out = {}
    for ty, k in split_types(count, types).items():
        cplx = is_cplx(ty)
        lst = []
        for i in range(k):
            r = g.r
            n = r.randint(5, 14)
            dens = r.uniform(0.15, 0.5)
            P = {(a, a) for a in range(n)} | {(a, b) for a in range(n) for b in range(n) if r.random() < dens}

            # badly scaled rows / columns in half of the scenarios and the MC64 row permutation in half: equed comes back R / C / B and is
            # an input of the later calls with supplied factors
            rsc = [2.0 ** (r.randint(-12, 12) if r.random() < 0.5 else 0) for _ in range(n)] if r.random() < 0.5 else [1.0] * n

            def vals():
                return {kk: (rsc[kk[0]] * (8.0 if kk[0] == kk[1] else 2.0 ** -r.choice([0, 1, 2, 4, 6, 8])) * r.choice([1, -1]), 0.0) for kk in P}
            A = vals()
            o = {"iludefault": 0, "ColPerm": r.choice([NATURAL, COLAMD]), "RowPerm": r.choice([0, 1]), "Equil": r.choice([0, 1, 1]), "DropTol": float(r.choice([2.0 ** -5, 2.0 ** -3, 0.25])),
                 "DropRule": r.choice([DROP_BASIC, DROP_BASIC | DROP_AREA, DROP_BASIC | DROP_PROWS, DROP_BASIC | DROP_AREA | DROP_INTERP]), "MILU": r.choice([0, 0, 1, 2]),
                 "Trans": r.choice([0, 1]), "PivotGrowth": 0, "Cond": 0, "u": float(r.choice([1.0, 0.125]))}
            B = g.rhs_for(A, n, 1, cplx)
            lines = ["tune " + " ".join(map(str, g.tune()))] + g.mat_lines(A, n, n, "NC", cplx) + g.rhs_lines(B, n, 1, n, cplx) + opt_lines(o)
            lines += gssvx_block(work=None, events=0, fn="gsisx")
            for step in range(r.choice([1, 2, 3])):
                kind = r.choice([2, 2, 1, 3])
                lines.append("requireok")
                if kind != 3:
                    lines.append("newvals " + g.mat_lines(vals(), n, n, "NC", cplx)[3])
                if kind == 1:
                    lines.append("destroy LU")
                lines += opt_lines({"Fact": kind}) + g.rhs_lines(g.rhs_for(A, n, 1, cplx), n, 1, n, cplx) + gssvx_block(work=None, events=0, fn="gsisx")
            lines += ["destroy all", "ledger"]
            lst.append({"id": "%s-ilureuse-%05d-%s" % (prop, i, ty), "lines": lines, "n": n})
        out[ty] = lst
    return out


def has_perfect_matching(P, n):
    adj = [[i for i in range(n) if (i, j) in P] for j in range(n)]
    match = {}

    def aug(j, seen):
        for i in adj[j]:
            if i in seen:
                continue
            seen.add(i)
            if i not in match or aug(match[i], seen):
                match[i] = j
                return True
        return False
    return all(aug(j, set()) for j in range(n))


def ilu_split_matrix(g):
    """structurally nonsingular chain / leaf pattern with tiny entries whose dropping empties the L part of a later column"""
    r = g.r
    for attempt in range(30):
        n = r.randint(6, 18)
        A = {}
        for j in range(n):
            t = r.random()
            if t < 0.40:
                rows = {j: 1.0}
                if j + 1 < n:
                    rows[j + 1] = 1.0
            elif t < 0.58 and j + 1 < n:
                rows = {j: 1.0, r.randint(j + 1, n - 1): 2.0 ** -20}
            elif t < 0.74 and j > 0:
                rows = {r.randrange(j): 1.0}
                if r.random() < 0.3:
                    rows[r.randrange(j)] = 2.0
            elif t < 0.88 and j > 0:
                rows = {j - 1: 1.0, j: 1.0}
            else:
                rows = {j: 1.0, r.randrange(n): 1.0, r.randrange(n): 2.0 ** -r.choice([0, 20])}
            for i2, v in rows.items():
                A[(i2, j)] = (v * r.choice([1, -1, 2, 0.5]), 0.0)
        if r.random() < 0.5 and n >= 9:
            # motif: a leaf with a tiny off-diagonal entry, an unrelated column in between, a column that lives
            # in the leaf's pivotal row only, then a two-entry leaf that owns the next free row
            a = r.randint(0, n - 7)
            far = r.randint(a + 6, n - 1)
            for j in range(a, a + 5):
                for k2 in [k for k in A if k[1] == j]:
                    del A[k2]
            A[(a, a)] = (1.0, 0.0); A[(a + 4, a)] = (2.0 ** -20, 0.0)
            A[(a + 1, a + 1)] = (1.0, 0.0); A[(far, a + 1)] = (1.0, 0.0)
            A[(a, a + 2)] = (1.0, 0.0)
            A[(a + 2, a + 3)] = (r.choice([1.0, 4.0]), 0.0); A[(a + 3, a + 3)] = (r.choice([1.0, 0.125]), 0.0)
            A[(a + 3, a + 4)] = (1.0, 0.0); A[(a + 4, a + 4)] = (1.0, 0.0)
            if far - 1 > a + 4:
                A[(far - 1, a + 4)] = (1.0, 0.0)
        if has_perfect_matching(set(A), n):
            break
    else:
        A = {(d, d): (1.0, 0.0) for d in range(n)}
    return A, n


def fam_ilu_split(g, prop, count, types):
    """sparse chain / leaf patterns in natural order for the incomplete factorization: leaves whose only off-diagonal
    entry is tiny (dropped), columns whose only entries lie in rows that are already pivotal (their L part is empty
    once the tiny entry is gone: the zero-pivot fill-in search runs), short subtrees split by unrelated columns
    (SymmetricMode relaxation of non-contiguous subtrees), relax parameter 3..10"""
    out = {}
    for ty, k in split_types(count, types).items():
        cplx = is_cplx(ty)
        lst = []
        for i in range(k):
            r = g.r
            A, n = ilu_split_matrix(g)
            relax = r.randint(3, 10)
            tune = [r.randint(1, 8), relax, r.randint(relax, 12), r.randint(1, 4), r.randint(1, 3), r.choice([2, 10, 30]), r.randint(relax, 12)]
            o = {"iludefault": 0, "ColPerm": r.choice([NATURAL, NATURAL, NATURAL, COLAMD]), "Sym": r.choice([1, 1, 0]), "RowPerm": r.choice([0, 0, 0, 1]),
                 "Equil": r.choice([0, 1]), "Trans": r.choice([0, 1]), "PivotGrowth": 0, "Cond": 0}
            if r.random() < 0.4:
                o["DropTol"] = float(r.choice([2.0 ** -10, 2.0 ** -4]))
            B = [small_vec(g, n, cplx)]
            lines = ["tune " + " ".join(map(str, tune))] + g.mat_lines(A, n, n, "NC", cplx) + g.rhs_lines(B, n, 1, n, cplx) + opt_lines(o)
            lines += gssvx_block(work=None, events=0, fn="gsisx") + ["destroy all", "ledger"]
            lst.append({"id": "%s-ilusplit-%05d-%s" % (prop, i, ty), "lines": lines, "n": n})
        out[ty] = lst
    return out


def heap_scenario(g, sid, way, n, keys, ops):
    """ops: list of ("I", i) / ("E",) / ("F", i) / ("D", i, key)"""
    toks = []
    for o in ops:
        toks.append(o[0] + (str(o[1]) if len(o) > 1 else "") + ((":%d" % o[2]) if len(o) > 2 else ""))
    return {"id": sid, "lines": ["call heap %d %d" % (way, n), " ".join(str(float(k)) for k in keys), " ".join(toks)], "n": n}


def fam_heap(g, prop, tlc_hists, count):
    """the heap routines of MC64 one operation at a time.  (a) every TLC-enumerated history 'insert all N rows in some
    order, remove one from the middle' followed by extraction of the rest, under several key patterns with ties, for both
    heap orientations; (b) seeded random operation sequences on up to 12 rows (insert, extract, remove, improve a key)"""
    r = g.r
    lst = []
    pats = {5: [[1, 2, 3, 4, 5], [3, 1, 2, 1, 3], [2, 2, 1, 2, 2], [5, 4, 3, 2, 1], [1, 1, 1, 2, 2], [2, 3, 1, 3, 2]]}
    k = 0
    for h in tlc_hists:
        n = max(o[1] for o in h)
        for way in (2, 1):
            keys = r.choice(pats[5]) if n == 5 else [r.randint(1, 3) for _ in range(n)]
            ops = [tuple(o) for o in h] + [("E",)] * (n - 1)
            lst.append(heap_scenario(g, "%s-heapenum-%05d-d" % (prop, k), way, n, keys, ops)); k += 1
    for i in range(count):
        n = r.randint(4, 12)
        way = r.choice([2, 2, 1])
        keys = [r.randint(1, r.choice([2, 3, 6])) for _ in range(n)]
        cur = list(keys)
        inside = set()
        ops = []
        for _ in range(r.randint(n, 4 * n)):
            c = r.random()
            out = [x for x in range(1, n + 1) if x not in inside]
            if out and (c < 0.45 or not inside):
                x = r.choice(out); inside.add(x); ops.append(("I", x))
            elif c < 0.65:
                # the harness hands out the root; which member that is (ties) is followed by the model from the event.
                # The generator only guesses, an operation that turns out illegal is skipped by the harness.
                best = (min if way != 1 else max)(inside, key=lambda x: cur[x - 1])
                inside.discard(best); ops.append(("E",))
            elif c < 0.85:
                x = r.choice(sorted(inside)); inside.discard(x); ops.append(("F", x))
            else:
                x = r.choice(sorted(inside))
                cur[x - 1] = cur[x - 1] - 1 if way != 1 else cur[x - 1] + 1
                ops.append(("D", x, cur[x - 1]))
        ops += [("E",)] * (len(inside) + 2)
        lst.append(heap_scenario(g, "%s-heaprand-%05d-d" % (prop, i), way, n, keys, ops))
    return {"d": lst}


# ----------------------------------------------------------------------------- C17
def fam_ldperm(g, prop, count, types, exhaustive3=False):
    """?ldperm(job 5) on patterns with power-of-two weights (ties, zero diagonals, structurally singular ones) and on
    arbitrary magnitudes; orders 1..5"""
    out = {}
    for ty, k in split_types(count, types).items():
        cplx = is_cplx(ty)
        lst = []
        cases = []
        if exhaustive3 and ty == "d":
            for bits in range(1, 512):
                cases.append((3, {(i, j) for i in range(3) for j in range(3) if bits >> (3 * i + j) & 1}, "p3"))
        for i in range(k):
            n = g.r.randint(1, 5)
            P = g.pattern(n, n, g.r.choice(["dense", "sparse", "sparse", "zerodiag", "arrow", "band"]))
            if g.r.random() < 0.75:
                P = g.ensure_structurally_nonsingular(P, n)
            if not P:
                P = {(0, 0)}
            cases.append((n, P, "r"))
        # nearly full patterns of order 4..8 with few distinct magnitudes: several rows of an unmatched column tie for the
        # minimum reduced cost (the queue layout inside the shortest-path search depends on it); small integers likewise
        for i in range(k // 2):
            n = g.r.randint(4, 8)
            dens = g.r.uniform(0.55, 1.0)
            P = {(a, b) for a in range(n) for b in range(n) if g.r.random() < dens}
            if g.r.random() < 0.8:
                P = g.ensure_structurally_nonsingular(P, n)
            if not P:
                P = {(0, 0)}
            cases.append((n, P, g.r.choice(["tie", "tie", "int"])))
        # orders 6..10 with small-integer magnitudes: several augmentations with longer paths and heaps of four and more rows
        # (sift-up / sift-down / removal from the middle of the heap all run), many ties on tight edges
        for i in range(2 * k):
            n = g.r.randint(6, 10)
            dens = g.r.uniform(0.3, 0.8)
            P = {(a, b) for a in range(n) for b in range(n) if g.r.random() < dens}
            P = g.ensure_structurally_nonsingular(P, n)
            cases.append((n, P, "int9"))
        for i, (n, P, tag) in enumerate(cases):
            r = g.r
            if tag == "int9":
                mags = r.choice([list(range(1, 10)), [1, 2, 3], [1, 2, 4], [1, 2, 3, 4, 6]])
                A = {kk: (float(r.choice([1, -1]) * r.choice(mags)), 0.0) if (not cplx or r.random() < 0.5) else (0.0, float(r.choice(mags))) for kk in P}
                lines = g.mat_lines(A, n, n, "NC", cplx) + ["call ldperm 5", "destroy all", "ledger"]
                lst.append({"id": "%s-ldpermint9-%05d-%s" % (prop, i, ty), "lines": lines, "n": n})
                continue
            fl = (r.random() < 0.2 and tag == "r") or tag == "int"
            span = r.choice([2, 6, 30]) if tag not in ("tie", "int") else r.choice([1, 2, 3])
            if tag == "int":
                A = {kk: (float(r.choice([1, -1]) * r.randint(1, 3)), 0.0) for kk in P}
                lines = g.mat_lines(A, n, n, "NC", cplx) + ["call ldperm 5", "destroy all", "ledger"]
                lst.append({"id": "%s-ldpermint-%05d-%s" % (prop, i, ty), "lines": lines, "n": n})
                continue
            A = {}
            for kk in P:
                mag = 2.0 ** r.randint(-span, span) * (r.uniform(1, 1.99) if fl else 1.0)
                sgn = r.choice([1.0, -1.0])
                A[kk] = (sgn * mag, 0.0) if (not cplx or r.random() < 0.5) else (0.0, sgn * mag)
            if r.random() < 0.2 and n >= 2:
                # explicitly stored zeros (e.g. the zero block of a saddle-point matrix kept in the pattern), on the diagonal
                # too: they are not candidates for the matching; entries below one in magnitude compete with them
                for _ in range(r.randint(1, n)):
                    kk = (r.randrange(n), r.randrange(n)) if r.random() < 0.5 else (lambda d: (d, d))(r.randrange(n))
                    if kk not in A or r.random() < 0.3:
                        A[kk] = (0.0, 0.0)
                if r.random() < 0.5:
                    A = {kk: ((v[0] * 2.0 ** -3, v[1] * 2.0 ** -3) if v != (0.0, 0.0) else v) for kk, v in A.items()}
                if not has_perfect_matching({kk for kk, v in A.items() if v != (0.0, 0.0)}, n) and r.random() < 0.7:
                    for d in range(n):
                        if A.get((d, (d + 1) % n), (0.0, 0.0)) == (0.0, 0.0):
                            A[(d, (d + 1) % n)] = (2.0 ** -r.randint(0, 4), 0.0)
            lines = g.mat_lines(A, n, n, "NC", cplx) + ["call ldperm 5", "destroy all", "ledger"]
            lst.append({"id": "%s-ldperm%s%s-%05d-%s" % (prop, tag, "f" if fl else "", i, ty), "lines": lines, "n": n})
        out[ty] = lst
    return out


# ----------------------------------------------------------------------------- C16
import struct, os
import iowrite


def f32(x):
    return struct.unpack("f", struct.pack("f", x))[0]


def fam_readers(g, prop, count, types, outdir):
    """(matrix, encoding) pairs rendered as HB / RB / MM / triplet files and read back; general and symmetric storage,
    with and without diagonal entries, any entry order in coordinate files, several edit descriptors"""
    os.makedirs(outdir, exist_ok=True)
    out = {}
    for ty, k in split_types(count, types).items():
        cplx = is_cplx(ty)
        single = ty in ("s", "c")
        lst = []
        for i in range(k):
            r = g.r
            fmt = r.choice(["mm", "mm", "hb", "hb", "rb", "triple"] + (["triple_noheader"] if ty == "d" else []))
            n = r.randint(1, 7) if (fmt not in ("hb", "rb") or r.random() < 0.6) else r.randint(10, 13)   # two-digit indices
            sym = fmt in ("mm", "hb", "rb") and r.random() < 0.5
            dens = r.uniform(0.2, 0.9)
            pos = [(a, b) for a in range(n) for b in range(n) if (a >= b or not sym) and r.random() < dens]
            if sym and r.random() < 0.6:      # symmetric storage without (some) diagonal entries
                drop = r.random()
                pos = [p for p in pos if p[0] != p[1] or r.random() > drop]
            if not pos:
                pos = [(n - 1, 0)]
            style = r.choice(["dyadic", "decimal"])

            def rv():
                v = float(r.choice([1, -1, 2, 0.5, -3, 4, 0.25, 7, -0.125])) if style == "dyadic" else r.uniform(-9, 9) * 10 ** r.randint(-4, 4)
                return f32(v) if single else v
            vals = {p: (rv(), rv() if cplx else 0.0) for p in pos}
            path = os.path.join(outdir, "%s_%s_%05d.%s" % (prop, ty, i, fmt))
            stored = []       # (i, j, re, im) exactly as parsed back from the literals written
            if fmt in ("hb", "rb"):
                cols = sorted(pos, key=lambda p: (p[1], p[0]))
                colptr = [0]; rowind = []; flat = []
                for c in range(n):
                    for p in [q for q in cols if q[1] == c]:
                        rowind.append(p[0]); flat.append(vals[p][0])
                        if cplx:
                            flat.append(vals[p][1])
                    colptr.append(len(rowind))
                kind = r.choice(["E", "E", "D", "F"])
                digits = 8 if single else r.choice([16, 17])
                if kind == "F":
                    digits = r.choice([6, 10])
                # fields may be exactly as wide as their content (Fortran fixed-width input: no separating blank needed)
                vw = digits + r.choice([7, 8, 9, 10]) if kind != "F" else digits + r.choice([9, 12])
                vn = max(1, min(80 // vw, r.choice([1, 2, 3, 4])))
                iw = r.choice([len(str(n)), 3, 4, 8]); pw = r.choice([len(str(len(rowind) + 1)), 3, 5, 8])
                enc = {"pw": pw, "pn": max(1, min(80 // pw, r.choice([4, 10, 16]))), "iw": iw, "in": max(1, min(80 // iw, r.choice([5, 10, 20]))),
                       "vw": vw, "vn": vn, "vd": digits, "kind": kind, "scale": r.choice([None, None, 1]) if kind != "F" else None, "rhs": r.random() < 0.3}
                if not iowrite.write_hb(path, n, colptr, rowind, flat, cplx, sym, enc, rb=(fmt == "rb")):
                    continue
                # what the literals mean: re-read them the way a correct reader must
                lits = []
                for v in flat:
                    s_ = iowrite.fnum_f(v, vw, digits) if kind == "F" else iowrite.fnum_e(v, vw, digits, kind)
                    lits.append(float(s_.replace("D", "E")))
                it = iter(lits)
                for c in range(n):
                    for q in range(colptr[c], colptr[c + 1]):
                        re = next(it); im = next(it) if cplx else 0.0
                        stored.append((rowind[q], c, re, im))
            else:
                order = list(pos); r.shuffle(order)
                digits = 8 if single else 17
                ents = []
                for p in order:
                    re = float("%.*e" % (digits, vals[p][0])); im = float("%.*e" % (digits, vals[p][1]))
                    ents.append((p[0], p[1], re, im))
                if fmt == "mm":
                    iowrite.write_mm(path, n, ents, cplx, sym, comments=r.randint(0, 3), digits=digits, case=r.choice([0, 0, 1, 2, 3]))
                else:
                    base = r.choice([0, 1])
                    if base == 0:      # zero-based files are recognised by a zero index in the first entry
                        z = [e for e in ents if e[0] == 0 or e[1] == 0]
                        if not z:
                            base = 1
                        else:
                            ents.remove(z[0]); ents.insert(0, z[0])
                    iowrite.write_triplet(path, n, ents, cplx, base=base, header=(fmt == "triple"), digits=digits)
                stored = ents
            if fmt == "triple_noheader":
                # dimension is inferred from the largest index
                nn = max(max(e[0], e[1]) for e in stored) + 1
            else:
                nn = n
            full = {}
            for (a, b, re, im) in stored:
                full[(a, b)] = (re, im)
                if sym:
                    full[(b, a)] = (re, im)
            exp = sorted(full.items(), key=lambda kv: (kv[0][1], kv[0][0]))
            lines = ["expect %d %d" % (nn, len(exp)),
                     " ".join("%d %d %s" % (a, b, hx(v[0]) + ((" " + hx(v[1])) if cplx else "")) for (a, b), v in exp),
                     "call read %s %s" % (fmt, path)]
            fam = "read%s%s" % (fmt.replace("_", ""), "sym" if sym else "")
            lst.append({"id": "%s-%s-%05d-%s" % (prop, fam, i, ty), "lines": lines, "n": n})
        out[ty] = lst
    return out


# ----------------------------------------------------------------------------- C20
def bridge_scenario(g, sid, ty, hist):
    """one TLC-generated request history over the handles (SluBridge) as a harness script: handle h works on the matrix of
    context h; before every solve the simple driver solves the same system in a scratch context (reference bits)"""
    r = g.r
    cplx = is_cplx(ty)
    mats = {}
    lines = ["tune " + " ".join(map(str, g.tune()))]
    for h in (0, 1):
        n = r.randint(1, 6)
        A = g.lu_product(n, cplx)            # nonsingular by construction (the protocol is for nonsingular systems)
        mats[h] = (n, A)
        lines += ["use %d" % h] + g.mat_lines(A, n, n, "NC", cplx) + opt_lines({"default": 0})
        B = g.rhs_for(A, n, 1, cplx)
        lines += g.rhs_lines(B, n, 1, n, cplx)
    for op, h in hist:
        n, A = mats[h]
        if op == "factor":
            lines += ["use %d" % h, "call bridge 1 %d" % h]
        elif op == "solve":
            nrhs = r.randint(1, 3); ldb = n + r.choice([0, 2])
            B = g.rhs_for(A, n, nrhs, cplx) if r.random() < 0.7 else [small_vec(g, n, cplx) for _ in range(nrhs)]
            rhs = g.rhs_lines(B, n, nrhs, ldb, cplx)
            lines += ["use %d" % (2 + h)] + g.mat_lines(A, n, n, "NC", cplx) + opt_lines({"default": 0}) + rhs + ["call gssv", "destroy LU"]
            lines += ["use %d" % h] + rhs + ["call bridge 2 %d" % h]
        else:
            lines += ["use %d" % h, "call bridge 3 %d" % h]
    live = set()
    for op, h in hist:
        if op == "factor":
            live.add(h)
        elif op == "free":
            live.discard(h)
    for h in sorted(live):
        lines += ["use %d" % h, "call bridge 3 %d" % h]
    for k in (0, 1, 2, 3):
        lines += ["use %d" % k, "destroy all"]
    lines.append("ledger")
    return {"id": sid, "lines": lines, "n": 6}


# ----------------------------------------------------------------------------- C09
def mt_scenario(g, sid, ty):
    """one independent call (driver, factor + solve, expert driver with refinement / condition estimate, ordering,
    incomplete factorization, MC64) on its own data, without ledger-sensitive commands"""
    r = g.r
    cplx = is_cplx(ty)
    n = r.randint(2, 7)
    kind = r.choice(["gssv", "gssvx", "gssvx", "gsisx", "gstrf", "order", "ldperm", "equ"])
    A = scaled_matrix(g, n, cplx, r.choice([0, 3]))
    lines = ["tune " + " ".join(map(str, g.tune()))] + g.mat_lines(A, n, n, "NC", cplx)
    B = g.rhs_for(A, n, 2, cplx)
    if kind == "gssv":
        lines += opt_lines({"default": 0, "ColPerm": r.choice(ORDERINGS[:4])}) + g.rhs_lines(B, n, 2, n, cplx) + ["call gssv"]
    elif kind == "gssvx":
        lines += opt_lines(gssvx_opts(g, Cond=1, IterRefine=r.choice([1, 2]), PivotGrowth=1)) + g.rhs_lines(B, n, 2, n, cplx) + ["nowork", "call gssvx"]
    elif kind == "gsisx":
        o = {"iludefault": 0, "ColPerm": r.choice([NATURAL, COLAMD]), "RowPerm": r.choice([0, 1]), "Cond": 1}
        if r.random() < 0.3 and not ty in "sc":
            # two rows scaled far down: the large-diagonal permutation reports "scaling factors too large" and the driver
            # goes on without it (its other exit path)
            rows = r.sample(range(n), min(2, n))
            A = {kk: ((v[0] * 2.0 ** -560, v[1] * 2.0 ** -560) if kk[0] in rows else v) for kk, v in A.items()}
            lines = ["tune " + " ".join(map(str, g.tune()))] + g.mat_lines(A, n, n, "NC", cplx)
            o["RowPerm"] = 1
        if r.random() < 0.6:      # modified ILU with real dropping: the compensation and its damping factor are exercised
            o.update({"MILU": r.choice([1, 2, 3]), "MILUDim": float(r.choice([2.0, 3.0])), "DropTol": float(r.choice([2.0 ** -4, 0.25, 0.5])),
                      "DropRule": r.choice([DROP_BASIC, DROP_BASIC | DROP_AREA, DROP_BASIC | DROP_PROWS])})
        lines += opt_lines(o) + g.rhs_lines(B, n, 2, n, cplx) + ["nowork", "call gsisx"]
    elif kind == "gstrf":
        lines += opt_lines({"default": 0, "ColPerm": r.choice([NATURAL, COLAMD, MMD_ATA])}) + ["call gstrf", "requireok"] + g.rhs_lines(B, n, 2, n, cplx) + ["call gstrs %d" % r.choice([0, 1]), "call gscon 1"]
    elif kind == "order":
        lines += opt_lines({"default": 0}) + ["call order %d" % r.choice(ORDERINGS[:4]), "call ata", "call aplusat"]
    elif kind == "ldperm":
        lines += ["call ldperm 5"]
    else:
        lines += ["call equ"]
    return {"id": sid, "lines": lines, "n": n}


def repeat_scenario(g, sid, ty):
    """A ; B ; A again (fresh context, identical arguments): the two A calls must return identical output"""
    r = g.r
    a = mt_scenario(g, sid, ty)
    b = mt_scenario(g, sid, ty)
    if r.random() < 0.5:
        # B = the neighbour of A: same data, one option changed (a cache keyed on too little would be filled by B)
        alt = {"MILUDim": ["0x1.0p+1", "0x1.8p+1"], "MILU": ["1", "2", "3"], "Trans": ["0", "1", "2"], "Equil": ["0", "1"], "u": ["0x1.0p+0", "0x1.0p-3"],
               "DropTol": ["0x1.0p-4", "0x1.0p-1"], "ColPerm": ["0", "3"], "IterRefine": ["1", "2"], "RowPerm": ["0", "1"]}
        bl = list(a["lines"])
        idx = [k for k, ln in enumerate(bl) if ln.startswith("opt ") and ln.split()[1] in alt]
        if idx:
            k = r.choice(idx)
            key = bl[k].split()[1]
            cur = bl[k].split()[2]
            others = [v for v in alt[key] if v != cur] or alt[key]
            bl[k] = "opt %s %s" % (key, r.choice(others))
            b = {"lines": bl, "n": a["n"]}
    lines = ["use 0"] + a["lines"] + ["use 1"] + b["lines"] + (["use 3"] + mt_scenario(g, sid, ty)["lines"] if r.random() < 0.5 else []) + ["use 2", "mark repeat"] + a["lines"]
    # the mark must precede the *last* call of the repeated block only: a block has 1..3 calls; compare the first of them
    return {"id": sid, "lines": lines, "n": a["n"]}


# ----------------------------------------------------------------------------- families added after seeded changes were missed
def fam_symrelax(g, prop, count, types, fns=("gssv", "gstrf")):
    """SymmetricMode = YES (heap_relax_snode, no postorder) with relax 4..12 on random sparse patterns of order 6..20:
    relaxed supernodes must be complete, contiguous subtrees of a tree that is NOT postordered"""
    out = {}
    for ty, k in split_types(count, types).items():
        cplx = is_cplx(ty)
        lst = []
        for i in range(k):
            r = g.r
            n = r.randint(6, 16)
            dens = r.uniform(0.05, 0.3)
            P = {(a, a) for a in range(n)} | {(a, b) for a in range(n) for b in range(n) if r.random() < dens}
            if r.random() < 0.5:
                P |= {(b, a) for (a, b) in P}
            A = {kk: ((8.0 if kk[0] == kk[1] else float(r.choice([1, -1, 0.5, 2]))), 0.0) for kk in P}
            relax = r.choice([4, 6, 8, 10, 10, 12])
            tune = [r.randint(1, 4), relax, r.randint(relax, 14), r.randint(1, 4), r.randint(1, 3), r.choice([1, 2, 30]), r.randint(1, 6)]
            cp = r.choice([NATURAL, NATURAL, MY_PERMC, MMD_AT_PLUS_A])
            lst.append(lu_scenario(g, "%s-symrelax-%05d-%s" % (prop, i, ty), ty, n, A=A, tune=tune, sym=1, colperm=cp, u=float(r.choice([1.0, 0.5, 0.125])), fn=r.choice(list(fns))))
        out[ty] = lst
    return out


def fam_blocktri(g, prop, count, types, fns=("gssv", "gstrf")):
    """reducible systems: block upper triangular A = [B C ..; 0 D ..; ..] with 2..4 dense-ish diagonal blocks and upper coupling
    blocks, natural order mostly (the block structure survives), panels of 2..8 columns and narrow relaxed supernodes: a
    supernode that ends a diagonal block has NO row below its triangle, and later columns of the same panel have U segments of
    every length in it"""
    out = {}
    for ty, k in split_types(count, types).items():
        cplx = is_cplx(ty)
        lst = []
        for i in range(k):
            r = g.r
            sizes_ = [r.randint(1, 5) for _ in range(r.randint(2, 4))]
            n = sum(sizes_)
            offs = [sum(sizes_[:b]) for b in range(len(sizes_))]
            A = {}
            for b, (o, sz) in enumerate(zip(offs, sizes_)):
                dense = r.random() < 0.6
                for a in range(sz):
                    for c in range(sz):
                        if a == c or dense or r.random() < 0.5:
                            A[(o + a, o + c)] = g.value("pow2", cplx) if a != c else ((4.0, 0.0) if r.random() < 0.7 else g.value("pow2", cplx))
                for b2 in range(b + 1, len(sizes_)):
                    dens = r.choice([0.0, 0.3, 0.7, 1.0])
                    for a in range(sz):
                        for c in range(sizes_[b2]):
                            if r.random() < dens:
                                A[(o + a, offs[b2] + c)] = g.value("pow2", cplx)
            relax = r.randint(1, 2)
            tune = [r.randint(2, 8), relax, r.randint(max(relax, 2), 8), r.randint(1, 4), r.randint(1, 4), r.choice([1, 2, 30]), 4]
            lst.append(lu_scenario(g, "%s-blocktri-%05d-%s" % (prop, i, ty), ty, n, A=A, tune=tune, colperm=r.choice([NATURAL, NATURAL, NATURAL, COLAMD, MMD_AT_PLUS_A]),
                                   u=float(r.choice([1.0, 1.0, 0.5, 0.125])), fn=r.choice(list(fns))))
        out[ty] = lst
    return out


def arrow_down(n, diag, border, cplx):
    """diagonal + dense first column + dense last row: no fill when the diagonal entries are the pivots; when the
    (0,0) entry is not, the dense last row becomes the first pivot row and the factors fill completely"""
    A = {}
    for a in range(n):
        A[(a, a)] = (diag, 0.0)
        A[(n - 1, a)] = (border, 0.0)
        A[(a, 0)] = (border, 0.0)
    A[(0, 0)] = (diag, 0.0)
    A[(n - 1, n - 1)] = (4.0, 0.0)
    return A


def fam_histgrow(g, prop, count, types):
    """reuse of ordering + row pivots + storage where the new values abandon the remembered pivots and create fill the
    inherited arrays cannot hold (they must grow, and move, during the reuse call); then re-solves"""
    out = {}
    for ty, k in split_types(count, types).items():
        cplx = is_cplx(ty)
        lst = []
        for i in range(k):
            r = g.r
            n = r.randint(7, 10)
            A1 = arrow_down(n, 4.0, 1.0, cplx)
            A2 = arrow_down(n, 2.0 ** -r.randint(4, 12), float(r.choice([1, 2, -1])), cplx)
            # a few extra entries so that patterns differ between scenarios
            for _ in range(r.randint(0, 3)):
                kk = (r.randrange(n), r.randrange(n))
                if kk not in A1:
                    A1[kk] = (0.5, 0.0); A2[kk] = (1.0, 0.0)
            fmt = "NC"
            tune = [r.randint(1, 3), r.randint(1, 2), r.randint(1, 3), r.randint(1, 3), r.randint(1, 3), 1, 2]
            o = {"default": 0, "ColPerm": NATURAL, "Equil": 0, "u": 1.0, "IterRefine": r.choice([0, 1]), "Trans": r.choice([0, 1])}
            B = g.rhs_for(A1, n, 1, cplx)
            user = r.random() < 0.4
            est = query_estimate(n, n, len(A1), tune[0], 1, DWORD[ty])
            wk = (8 * est + 8000, r.choice([0, 4])) if user else None
            lines = ["tune " + " ".join(map(str, tune))] + g.mat_lines(A1, n, n, fmt, cplx) + g.rhs_lines(B, n, 1, n, cplx) + opt_lines(o)
            lines += gssvx_block(work=wk, events=3)
            lines += ["requireok", "newvals " + g.mat_lines(A2, n, n, fmt, cplx)[3]] + g.rhs_lines(g.rhs_for(A2, n, 1, cplx), n, 1, n, cplx) + opt_lines({"Fact": 2})
            lines += gssvx_block(work=wk, events=3)
            for _ in range(r.randint(1, 2)):
                lines += ["requireok"] + g.rhs_lines(g.rhs_for(A2, n, 1, cplx), n, 1, n, cplx) + opt_lines({"Fact": 3, "Trans": r.choice([0, 1])}) + gssvx_block(work=wk, events=0)
            lines += ["destroy LUauto", "destroy all", "ledger"]
            lst.append({"id": "%s-histgrow%s-%05d-%s" % (prop, "user" if user else "", i, ty), "lines": lines, "n": n})
        out[ty] = lst
    return out


def fam_storage_dense(g, prop, count, types):
    """C07 with dense-ish matrices, fill estimate 1 and narrow supernodes: U outgrows its array several times and every
    U column has many segments, so UCOL / USUB / LSUB move in the middle of a column (caller workspace and malloc)"""
    out = {}
    for ty, k in split_types(count, types).items():
        cplx = is_cplx(ty)
        lst = []
        for i in range(k):
            r = g.r
            n = r.randint(5, 10)
            if r.random() < 0.5:
                A = arrow_matrix(n, cplx)
                for _ in range(r.randint(0, n)):
                    A[(r.randrange(n), r.randrange(n))] = (float(r.choice([1, -1, 2, 0.5])), 0.0)
            else:
                A, _ = g.matrix(n, n, cplx, style=r.choice(["pow2", "small"]), kind="dense")
            tune = [r.randint(1, 3), 1, r.randint(1, 2), r.randint(1, 3), r.randint(1, 3), 30, 2]
            colperm = NATURAL
            B = g.rhs_for(A, n, 1, cplx)
            opts = {"default": 0, "ColPerm": colperm, "Equil": 0, "u": float(r.choice([1.0, 0.5]))}
            lines = ["tune " + " ".join(map(str, tune))] + g.mat_lines(A, n, n, "NC", cplx) + g.rhs_lines(B, n, 1, n, cplx) + opt_lines(opts)
            lines += gssvx_block(work=None, events=3)
            t2 = list(tune); t2[5] = 1
            big = 40 * query_estimate(n, n, n * n, tune[0], 1, DWORD[ty])
            for wk in (None, (big, 0), (big + 4 * r.randint(0, 5), 4), (big // 2, r.choice([0, 4]))):
                lines += ["destroy LUauto", "tune " + " ".join(map(str, t2))] + g.rhs_lines(B, n, 1, n, cplx)
                lines += gssvx_block(work=wk, events=3)
            lines += ["destroy LUauto"]
            lst.append({"id": "%s-storagedense-%05d-%s" % (prop, i, ty), "lines": lines, "n": n})
        out[ty] = lst
    return out


def fam_sweep_reuse(g, prop, ty, specs, step=4):
    """factor with an ample caller workspace, then refactor with SamePattern_SameRowPerm passing the SAME buffer with
    every shorter length (one scenario per length): a length that no longer holds the factors plus the work arrays must be
    reported as info > n; nothing beyond work+lwork may be written"""
    out = []
    cplx = is_cplx(ty)
    for mi, (n, fill) in enumerate(specs):
        A = sweep_matrix(g, ty, n)
        tune = g.tune(); tune[5] = fill
        B = g.rhs_for(A, n, 1, cplx)
        est = query_estimate(n, n, len(A), tune[0], fill, DWORD[ty])
        big = 2 * est + 2000
        head = ["tune " + " ".join(map(str, tune))] + g.mat_lines(A, n, n, "NC", cplx) + g.rhs_lines(B, n, 1, n, cplx) + opt_lines({"default": 0, "ColPerm": g.r.choice([NATURAL, COLAMD]), "Equil": 0})
        A2 = {k: (v[0] * 2, v[1] * 2) for k, v in A.items()}
        for al in (0, 4):
            for lw in range(step, big + step, step):
                lines = list(head) + gssvx_block(work=(big, al), events=0) + ["requireok", "newvals " + g.mat_lines(A2, n, n, "NC", cplx)[3]] + g.rhs_lines(B, n, 1, n, cplx)
                lines += opt_lines({"Fact": 2}) + ["relwork %d" % lw, "events 3", "call gssvx"]
                out.append({"id": "%s-sweepreuse-m%02df%da%d-%05d-%s" % (prop, mi, fill, al, lw, ty), "lines": lines, "n": n})
    return out
