#!/usr/bin/env python3
"""Regenerates /verif/MANIFEST.json from the table below (one source of truth)."""
import json, os, subprocess
V = os.path.dirname(os.path.dirname(os.path.abspath(__file__)))
props = [json.loads(l) for l in open(os.path.join(V, "properties.jsonl"))]

CLAIMS = {
 "C01": dict(cat="model_checking", ref="6/C01", tech="TLC model checking of SluFactor+SluSolve (exhaustive small matrices) + TLC trace validation of ?gssv executions on the exact domain D2; rational side evaluator for the rounding slice",
   text="TLC exhaustively checks that the specified algorithm (threshold pivoting, permuted supernodal solves in the order ?gstrs performs them, transposed solve for row storage) solves A x = b for every 3x3 (complex 2x2) matrix over a small value set, every column permutation, threshold and tie branch; then every ?gssv execution of ~10^3 (quick) / ~10^4 (thorough) generated systems in all four types is validated line by line by TLC against SluTrace: exact residual zero on D2, componentwise bound in exact rational arithmetic elsewhere.",
   note="Trusted: harness projection of outputs, TLC/Json module, IEEE arithmetic being exact on D2 (DESIGN 3). Rounding slice (inputs outside D2) is decided by bin/ratcheck.py (exploration, not model checking). n <= 8."),
 "C02": dict(cat="model_checking", ref="6/C02", tech="TLC model checking of SluFactor (LeadingIdentity, MultiplierBound, pivot rule on all tie branches) + TLC trace validation replaying exact elimination along the recorded pivots; side evaluator for the bound form",
   text="The factor specification is model-checked exhaustively (square 3x3, tall 4x2, complex 2x2, all permutations/thresholds/ties); every recorded factorization (?gssv, ?gstrf incl. tall matrices and caller-supplied perm_c) is replayed by TLC in exact arithmetic along its recorded pivots: bijections, threshold and diagonal-preference clauses per column, L and U compared entry by entry with the exact factors.",
   note="Exact comparison on D2 only; outside D2 the stated inequality is evaluated in rational arithmetic on the recorded values (side evaluator). n <= 8, m <= n+3."),
 "C03": dict(cat="model_checking", ref="6/C03", tech="TLC evaluation of the SluStore!WellFormed predicate (clause by clause) on every recorded L/U of ?gssv/?gstrf executions",
   text="C03 is purely discrete: the predicate is the specification. TLC evaluates it on the raw SCformat/NCformat arrays (with allocated lengths from the ledger) of every successful factorization produced by the generated scenarios.",
   note="Coverage is by generated scenarios (all types, random tuning incl. relaxed / fundamental supernodes, maxsuper splits); no exhaustive enumeration of structures."),
 "C04": dict(cat="model_checking", ref="6/C04", tech="TLC model checking of SluFactor!ZeroPivot/SingularReported + trace validation of singular ?gssv executions (exact replay to the first column without candidate, Hall-condition oracle)",
   text="Design level: for all small matrices TLC shows info=i iff column i is the first without nonzero candidate and that structural singularity always ends there. Conformance: generated exactly singular matrices (empty lines, Hall violations, duplicated lines) through ?gssv; TLC replays the exact elimination along the recorded pivots and checks info, the leading block, B untouched; Hall's condition decides structural singularity independently of values.",
   note="Exact-cancellation cases are decidable only on D2 (power-of-two pivots before the deficient column). Two known findings (crash on structurally singular input; rounding hides a Hall violation) are listed in known_findings.jsonl."),
 "C07": dict(cat="model_checking", ref="6/C07", tech="TLC model checking of SluMem (regions ordered/disjoint, capacity, content-neutral growth) + TLC trace validation of allocator events and bit-for-bit comparison of runs that differ only in how storage was obtained",
   text="SluMem (the allocator transcribed action for action, both memory models) is model-checked for every workspace length in one-word steps; per generated matrix the harness runs ?gssvx/?gsisx with library allocation (fill 30 reference; fill 1,2,3 forcing 0..many expansions) and with caller workspaces of several sufficient lengths and both alignments; TLC validates every allocator event against the safety layer and demands identical permutations / factor bytes / nnz, expansions = number of granted growth requests, mem_usage = the QuerySpace formula of the returned arrays.",
   note="With vendor BLAS bit-for-bit agreement is demanded on exact (D2) scenarios only (alignment-dependent kernels may round differently); the bundled-BLAS build (variant v1b) is compared bit for bit on all data. Content preservation inside a move is observed through the outputs, not modelled per byte."),
 "C08": dict(cat="model_checking", ref="6/C08", tech="TLC model checking of SluMem over every workspace length (USER) and failure position (SYSTEM) + exhaustive lwork sweep of the real ?gssvx with guard zones, every allocator event validated by TLC",
   text="Design level: TLC explores the transcribed allocator for every lwork in steps of one word, both alignments, all demand sequences, and shows StackSane/RegionsOK/WritesInside/ShortageReported/ExpandGrows (the pre-fix model, cfg MC_Mem_legacy, exhibits the violations that were then reproduced). Conformance: for small systems with fill estimates 1..8 the real driver is run for EVERY workspace length from one word to beyond the requirement x both alignments, each in its own process between guard zones; TLC validates each allocator event (stack accounting, regions, cursors, growth) and the outcome (guards intact; info > n or factors identical to the reference run; no crash/hang).",
   note="Trusted: guard zones (64 KiB each side) as the observer of out-of-workspace writes; SYSTEM-model failure injection through the USER_MALLOC seam. Four genuine defects found here were repaired by fix: commits (known_findings.jsonl)."),
 "C05": dict(cat="model_checking", ref="6/C05", tech="TLC model checking of SluFactor/SluSolve (solves for N/T/C) + TLC trace validation of ?gssvx: exact op(A)X=B on D2, exponent-exact scaling clauses for A and B, side evaluator for the rounding slice",
   text="Design level as C01 plus SolveCorrect for all three Trans values. Conformance: generated systems through ?gssvx over every Trans x Equil x NC/NR x IterRefine x orderings, with power-of-two row/column scalings that force each equed outcome; TLC checks op(A0) X = B0 exactly for the caller's original A and B, A' = diag(R) A diag(C) restricted to equed entry by entry (exponent arithmetic), B scaled by the matching factor only, padding untouched, factor clauses on the matrix that was actually factored.",
   note="NR storage is treated as the documentation does (scalings apply to the transposed view). Complex/NR/CONJ is a known finding. Outside D2 the residual and factor inequalities are evaluated in rational arithmetic (ratcheck)."),
 "C06": dict(cat="model_checking", ref="6/C06", tech="TLC enumerates all call histories (SluHist: Fact modes x value changes under the documented preconditions); each history is executed and every call validated by TLC as a fresh factorization of that call's matrix",
   text="SluHist's reachable histories of length <= 4 (3616) are the test plan: DOFACT / SamePattern / SamePattern_SameRowPerm / FACTORED with value changes same, tiny perturbation, unrelated, rescaled, zeroed or shrunk old pivot. The harness keeps the caller objects alive across calls exactly as EXAMPLE/dlinsolx2-3 do; per call TLC checks the C02-C05 clauses for that call's matrix (pivot reuse exempt from diagonal preference only), column-order reuse, and that FACTORED leaves factors and A untouched and solves the unscaled system.",
   note="quick tier samples 420 histories, thorough runs all of them in all types. Preconditions not met at run time (a singular intermediate result) end the history (Skip event)."),
 "C18": dict(cat="model_checking", ref="6/C18", tech="SluScreen decision tables (TLA+) enumerated exhaustively by TLC; every single-argument corruption executed against every routine in four types; trace validation of info, byte-identity of caller objects, ledger",
   text="The specification is the ordered decision table of each routine's header; TLC checks the tables' consistency and emits all 118 single-argument corruptions; each is applied to an otherwise valid call (factors, scalings, permutations in place) of ?gssv, ?gssvx, ?gsisx, ?gstrs, ?gsrfs, ?gscon, ?gsequ, sp_?trsv; TLC validates info = -(first offending position), that every caller-owned byte is unchanged and no allocation is retained.",
   note="sp_?gemv/sp_?gemm have no info argument and are not covered; B->ncol < 0 is not a documented check of ?gstrs/?gsrfs and is not generated for them. Two defects found here were repaired (known_findings.jsonl)."),
 "C19": dict(cat="model_checking", ref="6/C19", tech="TLC-enumerated API lifecycles (SluLife) executed under an allocation ledger with red zones; every call's ledger validated by TLC (no leak per outcome class, no double/unknown free, guards intact, nothing left at the end); same behaviours replayed under ASan+UBSan (and valgrind in the thorough tier) as observers",
   text="SluLife models which library-owned objects the caller holds and which calls are legal next (fresh / reuse / solve / query / short workspace / failed growth / singular / rejected / destroy); TLC enumerates all 21,752 lifecycles of length <= 4, a seeded sample (all in thorough) is executed in four types. The USER_MALLOC seam gives a ledger with call sites, red zones and poisoned fresh blocks; TLC checks after every call that nothing of the library's own is still allocated (per outcome class), that each free hit a live block and guard bytes are intact, and that nothing is left once the caller destroyed what it was handed. The same scripts plus the factor / singular / expert / storage families (fill estimate 1: arrays end exactly at capacity) run under clang ASan+UBSan; a report inside libsuperlu is a violation keyed by kind and function.",
   note="Memory errors that neither damage a red zone nor trip a sanitizer are not seen. Known findings: leaks on out-of-space returns of the factor routines, crash on structurally singular input (shared with C04)."),
 "C11": dict(cat="model_checking", ref="6/C11", tech="SluEquil in the log domain (exponent arithmetic with IEEE clamping / underflow / overflow semantics) model-checked over exponent sets spanning the whole range; every output of ?gsequ/?laqgs on DL inputs compared exactly with the specification by TLC",
   text="TLC checks for all 2x2 (thorough: 2x3, 3x2) matrices over {0, smallest subnormal, around the smallest normal, around 1, near overflow} that the transcribed algorithm yields factors inside the safe range, unit row / column maxima unless clamped, the info convention and a legal equed. Conformance: ~10^3 (10^4) generated matrices up to 4x4 with entries +-2^e anywhere in the exponent range, empty lines, explicit zeros, complex entries as |re|+|im|; TLC compares info, R, C, rowcnd, colcnd, amax, equed and every scaled entry as exponents (no tolerance).",
   note="Entries with arbitrary mantissas (rounding slice) are judged by ratcheck with a 4-ulp tolerance. One known finding (factor product overflow in the B branch)."),
}

def main():
    checks = []
    for p in props:
        c = CLAIMS.get(p["id"])
        if not c:
            continue
        checks.append({"property_id": p["id"], "quick_cmd": "python3 bin/check.py %s --tier quick" % p["id"],
                       "thorough_cmd": "python3 bin/check.py %s --tier thorough" % p["id"],
                       "evidence_file": "evidence/%s.json" % p["id"],
                       "replay_cmd_template": "python3 bin/check.py %s --replay {path}" % p["id"],
                       "engine": "tlc+sluh",
                       "level_claimed": {"category": c["cat"], "text": c["text"], "design_ref": "DESIGN.md section " + c["ref"]},
                       "level_note": c["note"], "technique": c["tech"]})
    try:
        hooks = subprocess.run(["git", "-C", "/repo", "log", "--format=%H %s", "--grep=^hook:"], stdout=subprocess.PIPE, text=True).stdout.split("\n")
        hook_commits = [h.split()[0] for h in hooks if h.strip()]
    except Exception:
        hook_commits = []
    m = {"version": 1,
         "setup_cmd": "python3 bin/vbuild.py v0",
         "hooks": {"guard": "SLU_VERIF",
                   "enable": "bin/vbuild.py compiles /repo/SRC (+FORTRAN/*.c, CBLAS for v1) with -DSLU_VERIF -include harness/slu_vhooks.h and the USER_MALLOC/USER_FREE/USER_ABORT seam (DESIGN 4.1/4.2)",
                   "baseline_off_cmd": "cmake --build /repo/_build -j16 && ctest --test-dir /repo/_build -j8 --timeout 900",
                   "source_commits": hook_commits, "add_only": True},
         "engines": [{"name": "tlc", "path": "spec/", "serves_properties": sorted(CLAIMS), "kind_free_text": "TLA+ specification modules, model-checking configs (MC_*.cfg) and the trace specification SluTrace.tla, run with TLC"},
                     {"name": "sluh", "path": "harness/", "serves_properties": sorted(CLAIMS), "kind_free_text": "C harness executing scenarios against the library built from /repo and logging the projected abstract state as ndjson"},
                     {"name": "ratcheck", "path": "bin/ratcheck.py", "serves_properties": [k for k in sorted(CLAIMS) if k in ("C01", "C02", "C05", "C12", "C13", "C15")], "kind_free_text": "exact rational evaluation of the epsilon-inequalities (arbitration S2 and rounding slice)"}],
         "checks": checks,
         "notes": "Exit codes: 0 held (KNOWN-FINDING lines possible), 1 VIOLATION, 2 CHECK-BROKEN. See DESIGN.md.",
         "not_applicable": [{"property_id": p["id"], "reason": "check under construction (DESIGN.md section 10); not claimed until its specification module and binding are committed"} for p in props if p["id"] not in CLAIMS]}
    json.dump(m, open(os.path.join(V, "MANIFEST.json"), "w"), indent=1)

if __name__ == "__main__":
    main()
