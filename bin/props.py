#!/usr/bin/env python3
"""Per-property check procedures (DESIGN section 6)."""
import json, os, subprocess, sys
import vlib, families as F
from gen import Gen

QUICK_TYPES = {"d": 1.0, "s": 0.25, "z": 0.35, "c": 0.15}
FULL_TYPES = {"d": 1.0, "s": 1.0, "z": 1.0, "c": 1.0}


def merge(*dicts):
    out = {}
    for d in dicts:
        for k, v in d.items():
            out.setdefault(k, []).extend(v)
    return out


def sizes(run, q, t):
    return q if run.tier == "quick" else t


def mc_factor(run, quick, thorough):
    for name in (quick if run.tier == "quick" else quick + thorough):
        run.model_check("Factor_" + name, "MC_Factor.tla", "MC_Factor_%s.cfg" % name)


def check_C01(run):
    mc_factor(run, ["q", "c"], ["p", "t"])
    g = Gen(run.seed * 1000 + 1)
    types = QUICK_TYPES if run.tier == "quick" else FULL_TYPES
    scen = F.fam_gssv(g, "C01", sizes(run, 600, 5000), types)
    run.conform("gssv", scen, ["C01."])
    return run.finish(rule="random small dyadic systems through ?gssv (orders 1..8, five orderings, u in {1..1/16}, NC/NR, nrhs 0..3, lda >= n, random tuning); "
                           "non-trivial = accepted scenario whose trace was validated clause by clause")


def check_C02(run):
    mc_factor(run, ["q", "tall", "c"], ["p", "t"])
    g = Gen(run.seed * 1000 + 2)
    types = QUICK_TYPES if run.tier == "quick" else FULL_TYPES
    scen = merge(F.fam_gssv(g, "C02", sizes(run, 400, 3000), types), F.fam_gstrf(g, "C02", sizes(run, 400, 3000), types), F.fam_tall_n1(g, "C02", sizes(run, 40, 200), types))
    run.conform("lu", scen, ["C02."])
    return run.finish(rule="square systems through ?gssv, square and tall matrices through ?gstrf with caller-supplied perm_c")


def check_C03(run):
    g = Gen(run.seed * 1000 + 3)
    types = QUICK_TYPES if run.tier == "quick" else FULL_TYPES
    scen = merge(F.fam_gssv(g, "C03", sizes(run, 400, 3000), types), F.fam_gstrf(g, "C03", sizes(run, 400, 3000), types), F.fam_tall_n1(g, "C03", sizes(run, 40, 200), types))
    run.conform("lu", scen, ["C03."])
    return run.finish(rule="every trace line carrying L,U is checked against SluStore!WellFormed")


def check_C04(run):
    mc_factor(run, ["q", "tall"], ["p", "t"])
    g = Gen(run.seed * 1000 + 4)
    types = QUICK_TYPES if run.tier == "quick" else FULL_TYPES
    scen = F.fam_singular(g, "C04", sizes(run, 600, 5000), types)
    run.conform("sing", scen, ["C04."])
    return run.finish(rule="exactly singular matrices (empty rows/columns, Hall violations, duplicated lines) through ?gssv")


def replay(run, path):
    meta = json.load(open(os.path.join(path, "meta.json")))
    scen = []
    cur = None
    for ln in open(os.path.join(path, "scenario.txt")).read().splitlines():
        if ln.startswith("begin "):
            cur = {"id": ln.split()[1], "lines": []}
        elif ln == "end":
            scen.append(cur)
        else:
            cur["lines"].append(ln)
    run.prefixes = [run.prop + "."]
    res = vlib.execute(run.prop + "_replay", run.build("v0"), {meta["ty"]: scen})
    cands = run.judge(res)
    for c in cands:
        print("REPLAY: %s violates %s" % (c["scenario"]["id"], c["clause"]))
        print("VIOLATION property=%s replay=%s" % (run.prop, path))
    return 1 if cands else 0
