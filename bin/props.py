#!/usr/bin/env python3
"""Per-property check procedures (DESIGN section 6)."""
import json, os, subprocess, sys
import vlib, families as F
from gen import Gen

QUICK_TYPES = {"d": 0.8, "s": 0.35, "z": 0.45, "c": 0.35}      # every type gets a substantial share: the four type files are maintained separately
FULL_TYPES = {"d": 1.0, "s": 1.0, "z": 1.0, "c": 1.0}


def merge(*dicts):
    out = {}
    for d in dicts:
        for k, v in d.items():
            out.setdefault(k, []).extend(v)
    return out


def sizes(run, q, t):
    return q if run.tier == "quick" else t


def mc_factor(run, quick, thorough):
    for name in (quick if run.tier == "quick" else quick + thorough):
        run.model_check("Factor_" + name, "MC_Factor.tla", "MC_Factor_%s.cfg" % name)


def check_C01(run):
    mc_factor(run, ["q", "c"], ["p"])          # (the largest configuration, "t", runs in C02's thorough tier: about 40 minutes)
    g = Gen(run.seed * 1000 + 1)
    types = QUICK_TYPES if run.tier == "quick" else FULL_TYPES
    scen = merge(F.fam_gssv(g, "C01", sizes(run, 600, 5000), types), F.fam_gssv_big(g, "C01", sizes(run, 160, 1500), types),
                 F.fam_symrelax(g, "C01", sizes(run, 200, 2500), types, fns=("gssv",)), F.fam_blocktri(g, "C01", sizes(run, 200, 3000), types, fns=("gssv",)))
    run.conform("gssv", scen, ["C01."])
    return run.finish(rule="random small dyadic systems through ?gssv (orders 1..8, five orderings, u in {1..1/16}, NC/NR, nrhs 0..3, lda >= n, random tuning); "
                           "non-trivial = accepted scenario whose trace was validated clause by clause")


def check_C02(run):
    mc_factor(run, ["q", "tall", "c"], ["p", "t"])
    g = Gen(run.seed * 1000 + 2)
    types = QUICK_TYPES if run.tier == "quick" else FULL_TYPES
    scen = merge(F.fam_gssv(g, "C02", sizes(run, 400, 3000), types), F.fam_gstrf(g, "C02", sizes(run, 400, 3000), types), F.fam_tall_n1(g, "C02", sizes(run, 40, 200), types),
                 F.fam_gssv_big(g, "C02", sizes(run, 90, 1200), types), F.fam_symrelax(g, "C02", sizes(run, 250, 4000), types), F.fam_blocktri(g, "C02", sizes(run, 250, 3000), types))
    run.conform("lu", scen, ["C02."])
    return run.finish(rule="square systems through ?gssv, square and tall matrices through ?gstrf with caller-supplied perm_c")


def check_C03(run):
    g = Gen(run.seed * 1000 + 3)
    types = QUICK_TYPES if run.tier == "quick" else FULL_TYPES
    scen = merge(F.fam_gssv(g, "C03", sizes(run, 400, 3000), types), F.fam_gstrf(g, "C03", sizes(run, 400, 3000), types), F.fam_tall_n1(g, "C03", sizes(run, 40, 200), types),
                 F.fam_symrelax(g, "C03", sizes(run, 250, 2500), types), F.fam_histgrow(g, "C03", sizes(run, 120, 800), types), F.fam_blocktri(g, "C03", sizes(run, 200, 2000), types))
    # reuse modes: the structure after SamePattern / SamePattern_SameRowPerm (abandoned pivots, other fill) is held to the same predicate
    hists = [h for h in tlc_histories(run) if any(k[0] != "DOFACT" for k in h)]
    g.r.shuffle(hists)
    scen = merge(scen, {ty: [F.history_scenario(g, "C03-hist-%05d-%s" % (i, ty), ty, hists[i % len(hists)]) for i in range(sizes(run, 150, 1200) // (1 if ty == "d" else 4))] for ty in ("d", "z", "s")})
    run.conform("lu", scen, ["C03."], tv_env={"MODE": "light"})        # storage clauses only: the numeric replay belongs to C02
    # incomplete factors: the same predicate, except that U may repeat a row index with an explicit zero
    types_ilu = {"d": 0.85, "z": 0.45, "s": 0.35, "c": 0.35} if run.tier == "quick" else FULL_TYPES
    run.conform("ilu", merge(F.fam_ilu(g, "C03", sizes(run, 500, 5000), types_ilu), F.fam_ilu_split(g, "C03", sizes(run, 100, 1000), types_ilu)), ["C03.", "C15.C03."], tv_env={"MODE": "light"})
    return run.finish(rule="every successful factorization of the ?gssv / ?gstrf / tall / SymmetricMode / reuse-history families and every incomplete factorization of the ?gsisx families, in four types, is checked against SluStore!WellFormed clause by clause (raw SCformat / NCformat arrays with their allocated lengths)")


def check_C04(run):
    mc_factor(run, ["q", "tall"], ["p"])
    g = Gen(run.seed * 1000 + 4)
    types = QUICK_TYPES if run.tier == "quick" else FULL_TYPES
    scen = merge(F.fam_singular(g, "C04", sizes(run, 600, 5000), types), F.fam_singular(g, "C04", sizes(run, 160, 1600), {"d": 1.0, "z": 1.0, "s": 1.0, "c": 1.0}, fn="gssvx"),
                 F.fam_reusezero(g, "C04", sizes(run, 300, 3000), types))
    run.conform("sing", scen, ["C04."])
    return run.finish(rule="exactly singular matrices (empty rows/columns, Hall violations, duplicated lines) through ?gssv and ?gssvx; refactorizations with a reused row permutation after a former pivot became exactly zero, thresholds down to 0")


def mc_mem(run, thorough_too=True):
    run.model_check("Mem_q", "MC_Mem.tla", "MC_Mem_q.cfg")
    # the allocator as it was before the fix: commits: TLC exhibits the violation the sweep reproduced (DESIGN 9.1/9.10)
    run.model_check("Mem_legacy", "MC_Mem.tla", "MC_Mem_legacy.cfg", expect_violation=True, coverage=False)
    if run.tier != "quick" and thorough_too:
        for c in ("s64", "z", "fill2"):
            run.model_check("Mem_" + c, "MC_Mem.tla", "MC_Mem_%s.cfg" % c)


def mc_driver(run, neg):
    # the expert drivers as a phase machine: the policy (the phases as coded) satisfies the safety layer that the trace validation
    # evaluates on every recorded call; the negative controls must be reported violated
    run.model_check("Driver", "SluDriver.tla", "SluDriver.cfg", coverage=False)
    run.model_check("Driver_" + neg, "SluDriver.tla", "SluDriver_%s.cfg" % neg, expect_violation=True, coverage=False)


def check_C05(run):
    mc_factor(run, ["q", "c"], ["p"])
    mc_driver(run, "neg")
    g = Gen(run.seed * 1000 + 5)
    types = {"d": 0.85, "z": 0.8, "s": 0.35, "c": 0.35} if run.tier == "quick" else FULL_TYPES
    run.conform("gssvx", merge(F.fam_gssvx(g, "C05", sizes(run, 700, 5000), types), F.fam_factored(g, "C05", sizes(run, 160, 1600), {"d": 1.0, "z": 1.0, "s": 1.0, "c": 1.0})), ["C05.", "C18.unexpected_negative_info"])
    return run.finish(rule="generated systems through ?gssvx: every Trans x Equil x storage x IterRefine, power-of-two row/column scalings forcing equed N/R/C/B, complex data with nonzero imaginary parts")


def tlc_histories(run):
    objs, st, out = vlib.tlc_generate(run.prop + "_hist", "SluHist.tla", "SluHist.cfg")
    run.mc.append({"name": "SluHist", "module": "SluHist.tla", "cfg": "SluHist.cfg", "states": st["generated"], "distinct": st["distinct"], "depth": st["depth"], "wall_s": 0, "ok": True, "coverage": {}})
    return [o["hist"] for o in objs]


def check_C06(run):
    hists = tlc_histories(run)
    g = Gen(run.seed * 1000 + 6)
    g.r.shuffle(hists)
    scen = {}
    if run.tier == "quick":
        plan = {"d": 220, "z": 90, "s": 60, "c": 60}
    else:
        plan = {"d": len(hists), "z": len(hists), "s": len(hists) // 2, "c": len(hists) // 2}
    for ty, k in plan.items():
        scen[ty] = [F.history_scenario(g, "C06-hist-%05d-%s" % (i, ty), ty, hists[i % len(hists)]) for i in range(k)]
    scen = merge(scen, F.fam_histgrow(g, "C06", sizes(run, 120, 1500), {"d": 1.0, "z": 0.4, "s": 0.3, "c": 0.2}))
    # SymmetricMode histories: tree not postordered, relaxed supernodes chosen from the tree the first call returned
    nontrivial = [h for h in hists if len(h) >= 2 and any(k[0] in ("SamePattern", "SPSRP", "SamePattern_SameRowPerm") for k in h)] or hists
    for ty, k in ({"d": 50, "z": 20, "s": 16, "c": 16} if run.tier == "quick" else {"d": 800, "z": 400, "s": 300, "c": 300}).items():
        scen = merge(scen, {ty: [F.history_scenario(g, "C06-histsym-%05d-%s" % (i, ty), ty, nontrivial[(i * 7) % len(nontrivial)], sym=True) for i in range(k)]})
    run.conform("hist", scen, ["C06.", "C05.", "C02.", "C03.", "C04."])
    return run.finish(rule="TLC enumerates every call history of length <= 4 over Fact modes x value changes that respects the documented preconditions (SluHist); each is executed on a generated pattern and every call is validated as a fresh factorization of that call's matrix",
                      exhaustive=(run.tier != "quick"))


def check_C10(run):
    run.model_check("Order_q", "MC_Order.tla", "MC_Order_q.cfg", coverage=False)
    if run.tier != "quick":
        run.model_check("Order_r", "MC_Order.tla", "MC_Order_r.cfg", coverage=False)
        run.model_check("Order_t", "MC_Order.tla", "MC_Order_t.cfg", coverage=False, timeout=3000)
    g = Gen(run.seed * 1000 + 10)
    run.conform("order", F.fam_order(g, "C10", sizes(run, 500, 4000), exhaustive3=True, blocks=sizes(run, 180, 4000)), ["C10.", "C19.abnormal_end", "C19.redzone"])
    run.conform("orderbig", F.fam_order_big(g, "C10", sizes(run, 32, 300)), ["C10.", "C19.redzone", "C19.bad_free"], per_chunk=2)
    # the tree the drivers hand back (and the factor routine receives as an input) is the same object: SymmetricMode on and off
    tyd = {"d": 1.0, "z": 0.4, "s": 0.4, "c": 0.3}
    run.conform("drivertree", merge(F.fam_symrelax(g, "C10", sizes(run, 120, 1500), tyd), F.fam_gssvx(g, "C10", sizes(run, 150, 1500), tyd)), ["C10."], tv_env={"MODE": "light"})
    if run.tier != "quick":
        g2 = Gen(run.seed * 1000 + 101)
        run.conform("order_i64", F.fam_order(g2, "C10", 2000), ["C10."], variant="v1")
    return run.finish(rule="all 512 3x3 patterns x every ordering method plus random m x n patterns up to 7x7 (empty rows/columns, dense rows, diagonal, block, arrow): ordering, tree, postorder, permuted view and A'A / A'+A structures compared with SluOrder; each ordering repeated with other values; 64-bit index build in the thorough tier")


def check_C11(run):
    for c in (["d22"] if run.tier == "quick" else ["d22", "s23", "d32"]):
        run.model_check("Equil_" + c, "MC_Equil.tla", "MC_Equil_%s.cfg" % c, coverage=False)
    g = Gen(run.seed * 1000 + 11)
    types = {"d": 0.85, "z": 0.5, "s": 0.6, "c": 0.4} if run.tier == "quick" else FULL_TYPES
    run.conform("equ", F.fam_equ(g, "C11", sizes(run, 1200, 12000), types), ["C11."])
    run.conform("equ_float", F.fam_equ(g, "C11", sizes(run, 300, 3000), types, float_slice=True), ["C11."])
    return run.finish(rule="matrices up to 4x4 with entries +-2^e over the whole exponent range of the type (subnormal to near overflow, empty rows/columns, explicit zeros, complex entries measured as |re|+|im|): every output of ?gsequ/?laqgs compared as an exponent with SluEquil; random mantissas for the rounding slice")


def check_C12(run):
    run.model_check("Cond_2", "MC_Cond.tla", "MC_Cond_2.cfg", coverage=False)
    run.model_check("Cond_3", "MC_Cond.tla", "MC_Cond_3.cfg", coverage=False)
    g = Gen(run.seed * 1000 + 12)
    types = {"d": 0.85, "z": 0.45, "s": 0.4, "c": 0.35} if run.tier == "quick" else FULL_TYPES
    run.conform("lacon", F.fam_lacon(g, "C12", sizes(run, 400, 4000), {"d": 1.0, "s": 0.5}), ["C12."])
    run.conform("cond", merge(F.fam_cond(g, "C12", sizes(run, 700, 6000), types), F.fam_singular(g, "C12", sizes(run, 120, 1200), {"d": 1.0, "z": 1.0, "s": 1.0, "c": 1.0}, fn="gssvx"),
                              F.fam_cond_big(g, "C12", sizes(run, 300, 3000), types)), ["C12."])
    return run.finish(rule="the estimator automaton replayed on explicit operators; expert-driver runs over graded / generic / random-float systems with condition numbers from 1 to beyond 1/eps, both norms (Trans), both storages, equilibration on/off; singular systems for the growth factor")


def check_C13(run):
    g = Gen(run.seed * 1000 + 13)
    types = {"d": 0.85, "z": 0.5, "s": 0.4, "c": 0.35} if run.tier == "quick" else FULL_TYPES
    run.conform("refine", merge(F.fam_cond(g, "C13", sizes(run, 700, 6000), types), F.fam_gssvx(g, "C13", sizes(run, 400, 4000), types),
                                F.fam_slowrefine(g, "C13", sizes(run, 250, 2500), types)), ["C13."])
    return run.finish(rule="expert-driver runs with refinement on/off over well / ill conditioned and badly scaled systems, all Trans, zero right-hand-side columns; refinement-loop events validated against the loop automaton, BERR against the exact backward error of the returned X")


def check_C14(run):
    mc_factor(run, ["q", "c"], ["p"])       # SolveCorrect: the kernels' specification composes to a correct solve for N / T / C
    g = Gen(run.seed * 1000 + 14)
    types = {"d": 0.85, "z": 0.6, "s": 0.35, "c": 0.35} if run.tier == "quick" else FULL_TYPES
    run.conform("kernels", merge(F.fam_kernels(g, "C14", sizes(run, 500, 4000), types), F.fam_kernels_big(g, "C14", sizes(run, 200, 2000), types)), ["C14."])
    return run.finish(rule="factor pairs from ?gstrf on exact-domain matrices; sp_?trsv over every (uplo, trans, diag) combination and the documented lower-case spellings; ?gstrs nrhs 1..4 with padded B; sp_?gemv / sp_?gemm on rectangular matrices with alpha/beta in {0,1,-1,2,1/2}, strides, NaN-poisoned y for beta = 0")


def check_C15(run):
    mc_factor(run, ["q"], ["p"])
    mc_driver(run, "neg2")         # (negative control: a return path of ?gsisx that forgets to restore A's row indices)
    g = Gen(run.seed * 1000 + 15)
    types = {"d": 0.85, "z": 0.45, "s": 0.35, "c": 0.35} if run.tier == "quick" else FULL_TYPES
    scen = merge(F.fam_ilu(g, "C15", sizes(run, 1500, 12000), types), F.fam_ilu_split(g, "C15", sizes(run, 300, 3000), types),
                 F.fam_ilu_reuse(g, "C15", sizes(run, 250, 2500), types))
    run.conform("ilu", scen, ["C15.", "C03."])
    # "never breaks down": the same runs under ASan + UBSan (observer)
    g2 = Gen(run.seed * 1000 + 151)
    scen2 = F.fam_ilu(g2, "C15", sizes(run, 800, 8000), {"d": 1.0, "z": 0.3, "s": 0.2, "c": 0.15})
    run.conform("ilu_asan", scen2, ["C15.", "C03.", "C19.sanitizer"], variant="v2", harness_env=SAN_ENV, tv_env={"MODE": "light"})
    return run.finish(rule="structurally nonsingular matrices incl. zero diagonals and singular leading blocks through ?gsisx over every drop-rule combination, tolerance, fill factor, norm, MILU variant, row permutation, Trans, ordering, tuning; discrete clauses on every run, exact solve clause where nothing is scaled, complete-LU clauses when nothing is dropped or replaced; the same under ASan+UBSan")


def check_C16(run):
    run.model_check("IO_fixed", "SluIO.tla", "MC_IO_fixed.cfg", coverage=False)
    run.model_check("IO_exact", "SluIO.tla", "MC_IO_exact.cfg", coverage=False)
    run.model_check("IO_legacy", "SluIO.tla", "MC_IO_legacy.cfg", expect_violation=True, coverage=False)
    g = Gen(run.seed * 1000 + 16)
    types = {"d": 0.85, "z": 0.5, "s": 0.4, "c": 0.35} if run.tier == "quick" else FULL_TYPES
    outdir = os.path.join(vlib.WORK, "files_C16")
    scen = F.fam_readers(g, "C16", sizes(run, 900, 6000), types, outdir)
    run.conform("readers", scen, ["C16."])
    if run.tier != "quick":
        run.conform("readers_asan", scen, ["C16.", "C19.sanitizer"], variant="v2", harness_env=SAN_ENV)
    return run.finish(rule="generated (matrix, encoding) pairs rendered as Harwell-Boeing, Rutherford-Boeing, Matrix Market and triplet files (general / symmetric with and without diagonal entries, shuffled coordinate entries, E/D/F descriptors, field widths and counts per line, scale prefix, optional right-hand-side block, real and complex, single and double) and read back")


def check_C17(run):
    run.model_check("Match_3", "MC_Match.tla", "MC_Match_3.cfg", coverage=False)
    # the shared queue array of the shortest-path search: the repaired layout never reads back an overwritten entry; the
    # layout before the repair (DESIGN 9.18) is shown violated by TLC
    run.model_check("Mc64Q", "SluMc64Q.tla", "SluMc64Q.cfg", coverage=False)
    run.model_check("Mc64Q_legacy", "SluMc64Q.tla", "SluMc64Q_legacy.cfg", expect_violation=True, coverage=False)
    if run.tier != "quick":
        run.model_check("Match_4", "MC_Match.tla", "MC_Match_4.cfg", coverage=False)
    g = Gen(run.seed * 1000 + 17)
    types = {"d": 0.85, "z": 0.5, "s": 0.5, "c": 0.4} if run.tier == "quick" else FULL_TYPES
    run.conform("ldperm", F.fam_ldperm(g, "C17", sizes(run, 600, 6000), types, exhaustive3=True), ["C17."])
    # the heap routines one operation at a time: TLC enumerates the histories (SluHeap), the real mc64dd_/ed_/fd_ execute them
    objs, st, out = vlib.tlc_generate("C17_heap", "SluHeap.tla", "SluHeap.cfg" if run.tier == "quick" else "SluHeap_6.cfg")
    if "No error has been found" not in out:
        raise vlib.Broken("SluHeap generator failed:\n" + out[-2000:])
    run.mc.append({"name": "SluHeap", "module": "SluHeap.tla", "cfg": "SluHeap.cfg", "states": st["generated"], "distinct": st["distinct"], "depth": st["depth"], "wall_s": 0, "ok": True, "coverage": {}})
    run.conform("heap", F.fam_heap(g, "C17", [o["ops"] for o in objs], sizes(run, 600, 6000)), ["C17."], per_chunk=120)
    return run.finish(rule="every 3x3 pattern and random patterns of order 1..5 with weights +-2^e (ties, zero diagonals, structurally singular ones included) and random mantissas, real and complex, single and double: matching, optimality (brute force over all perfect matchings), dual scalings, untouched arrays")


def check_C20(run):
    cfg = "SluBridge.cfg" if run.tier == "quick" else "SluBridge_t.cfg"
    objs, st, out = vlib.tlc_generate("C20_hist", "SluBridge.tla", cfg)
    if "No error has been found" not in out:
        raise vlib.Broken("SluBridge generator failed:\n" + out[-2000:])
    run.mc.append({"name": "SluBridge", "module": "SluBridge.tla", "cfg": cfg, "states": st["generated"], "distinct": st["distinct"], "depth": st["depth"], "wall_s": 0, "ok": True, "coverage": {}})
    hists = [o["hist"] for o in objs]
    g = Gen(run.seed * 1000 + 20)
    scen = {}
    for ty in ("d", "z", "s", "c"):
        scen[ty] = [F.bridge_scenario(g, "C20-bridge-%05d-%s" % (i, ty), ty, h) for i, h in enumerate(hists)]
    run.conform("bridge", scen, ["C20."])
    return run.finish(rule="TLC enumerates every request history (factor / solve / free) over two handles up to length 5 (7 thorough) that follows the protocol; each is executed through c_fortran_?gssv_ with 1-based copies of generated matrices, nrhs 1..3, ldb >= n; every solve is compared bit for bit with the simple driver on the same system", exhaustive=True)


def check_C09(run):
    # schedules: TLC enumerates every interleaving of the scheduler grants of two (three) calls
    objs2, st2, out2 = vlib.tlc_generate("C09_sched2", "SluConc.tla", "SluConc.cfg")
    objs3, st3, out3 = vlib.tlc_generate("C09_sched3", "SluConc.tla", "SluConc_3.cfg")
    for nm, st, out in (("SluConc_2x5", st2, out2), ("SluConc_3x3", st3, out3)):
        if "No error has been found" not in out:
            raise vlib.Broken("SluConc failed:\n" + out[-2000:])
        run.mc.append({"name": nm, "module": "SluConc.tla", "cfg": "SluConc.cfg", "states": st["generated"], "distinct": st["distinct"], "depth": st["depth"], "wall_s": 0, "ok": True, "coverage": {}})
    scheds = [o["sched"] for o in objs2] + [o["sched"] for o in objs3]
    g = Gen(run.seed * 1000 + 9)
    g.r.shuffle(scheds)
    run.prefixes = ["C09."]
    nsched = sizes(run, 260, len(scheds))
    results = []
    for ty in ("d", "z"):
        groups = []
        for gi, sc in enumerate(scheds[: nsched if ty == "d" else nsched // 3]):
            k = max(sc) + 1
            groups.append({"scen": [F.mt_scenario(g, "C09-mt%s%04dt%d-00000-%s" % (ty, gi, t, ty), ty) for t in range(k)], "schedule": sc, "quantum": g.r.choice([1, 2, 3, 5, 8, 13, 40])})
        results += vlib.execute_mt("C09_mt_" + ty, run.build("v0"), ty, groups, tv_env={"MODE": "light"})
    for c in run.judge(results):
        run.report(c)
    # histories A ; B ; A in one thread
    hs = {ty: [F.repeat_scenario(g, "C09-repeat-%05d-%s" % (i, ty), ty) for i in range(sizes(run, 200, 1500) // (1 if ty == "d" else 3))] for ty in ("d", "z", "s")}
    run.conform("repeat", hs, ["C09."], tv_env={"MODE": "light"})
    # free-running threads under ThreadSanitizer (observer): a report whose stack is inside SRC/ is a violation
    tsan_groups = {}
    nts = sizes(run, 60, 600)
    races = {}
    for ty in ("d", "z"):
        groups = [{"scen": [F.mt_scenario(g, "C09-tsan%s%04dt%d-00000-%s" % (ty, gi, t, ty), ty) for t in range(4)], "schedule": [], "quantum": 1} for gi in range(nts if ty == "d" else nts // 3)]
        res = vlib.execute_mt("C09_tsan_" + ty, run.build("v3"), ty, groups, free=True, env={"TSAN_OPTIONS": "exitcode=96:halt_on_error=0"}, tv_env={"MODE": "light"})
        for c in run.judge(res):
            if not (c["clause"].startswith("C19.abnormal_end_sanitizer") or c["clause"].startswith("C19.sanitizer_")):
                run.report(c)
        import re as _re
        for r_ in res:
            for ids, log in r_["san"]:
                for rep in log.split("WARNING: ThreadSanitizer: ")[1:]:
                    kind = rep.split("(")[0].strip().replace(" ", "_")
                    # the accessing code itself (frame #0 of an access stack) must be library code
                    tops = _re.findall(r"\n    #0 (\w+) (\S+?):\d+", rep)
                    lib = [fn for fn, path in tops if path.startswith("/repo/SRC/") or path.startswith("/repo/CBLAS/")]
                    if lib:
                        races.setdefault("%s_in_%s" % (kind, lib[0]), (ids, r_))
                    else:
                        run.notes.append("ThreadSanitizer report outside the library (harness): " + "; ".join("%s %s" % t for t in tops[:2]))
    for key, (ids, r_) in races.items():
        scen = r_["scen"][ids[0]]
        run.report({"scenario": scen, "clause": "C09." + key, "fn": "tsan", "ty": r_["ty"], "trace_lines": []})
    run.observers["tsan"] = {"groups_of_4_threads": nts + nts // 3, "reports_in_library": len(races)}
    # structural check: no writable static data in the library objects (a reintroduced static buffer is shared state)
    import subprocess as _sp
    lib = os.path.join(run.build("v0"), "libsuperlu_v.a")
    nm = _sp.run(["nm", lib], stdout=_sp.PIPE, text=True).stdout
    cur = None; bad = []
    for ln in nm.splitlines():
        if ln.endswith(".o:"):
            cur = ln[:-1]
        else:
            parts = ln.split()
            if len(parts) >= 3 and parts[-2] in ("b", "B", "d", "D", "C") and cur and cur.startswith("SRC_"):
                bad.append((cur, parts[-1]))
    run.observers["nm_writable_statics"] = {"objects_scanned": nm.count(".o:"), "found": bad[:10]}
    for obj, sym in bad:
        run.report({"scenario": {"id": "C09-static-%s" % sym, "lines": ["# writable static %s in %s" % (sym, obj)]}, "clause": "C09.writable_static_" + sym, "fn": "nm", "ty": "d", "trace_lines": []})
    return run.finish(rule="TLC-enumerated interleavings (2 calls x 5 grants: 252; 3 calls x 3 grants: 1680) replayed with a hand-off scheduler, each call compared bit for bit with the same call alone; A;B;A histories; 4-thread free-running groups under ThreadSanitizer; nm scan for writable statics")


def check_C18(run):
    objs, st, out = vlib.tlc_generate("C18_screen", "SluScreen.tla", "SluScreen.cfg")
    if "No error has been found" not in out:
        raise vlib.Broken("SluScreen tables inconsistent:\n" + out[-2000:])
    run.mc.append({"name": "SluScreen", "module": "SluScreen.tla", "cfg": "SluScreen.cfg", "states": st["generated"], "distinct": st["distinct"], "depth": st["depth"], "wall_s": 0, "ok": True, "coverage": {}})
    g = Gen(run.seed * 1000 + 18)
    scen = {}
    tys = ["d", "z", "s", "c"]
    reps = 5 if run.tier == "quick" else 13          # rep 0: the plainest member of every corruption class; reps 1.. take the members in turn and draw the base call
    for ty in tys:
        lst = []
        for rep in range(reps):
            for k, o in enumerate(objs):
                fam = "screen" + o["routine"] + ("2" if len(o["corrupt"]) > 1 else "")
                # pairs of corruptions: all of them in double precision, a quarter elsewhere (quick tier)
                if len(o["corrupt"]) > 1 and run.tier == "quick" and (rep > 0 or (ty != "d" and (k + "dzsc".index(ty)) % 4)):
                    continue
                lst.append(F.screen_scenario(g, "C18-%s-%04d%02d-%s" % (fam, k, rep, ty), ty, o["routine"], o["corrupt"], o["mode"], plain=(rep == 0), rep=rep))
            # the valid base calls themselves (accepted: nothing is demanded of them here)
        scen[ty] = lst
    run.conform("screen", scen, ["C18."])
    return run.finish(rule="TLC enumerates every single-argument corruption and every pair of corruptions of every routine's decision table (SluScreen), for the expert drivers under each Fact mode; each is applied to an otherwise valid call in all four types", exhaustive=True)


SAN_ENV = {"ASAN_OPTIONS": "exitcode=96:detect_leaks=0:abort_on_error=0:allocator_may_return_null=1", "UBSAN_OPTIONS": "halt_on_error=1:exitcode=96:print_stacktrace=1"}


def tlc_lifecycles(run):
    objs, st, out = vlib.tlc_generate(run.prop + "_life", "SluLife.tla", "SluLife.cfg", heap="4g")
    run.mc.append({"name": "SluLife", "module": "SluLife.tla", "cfg": "SluLife.cfg", "states": st["generated"], "distinct": st["distinct"], "depth": st["depth"], "wall_s": 0, "ok": True, "coverage": {}})
    return [o["life"] for o in objs]


def check_C19(run):
    lives = tlc_lifecycles(run)
    g = Gen(run.seed * 1000 + 19)
    g.r.shuffle(lives)
    plan = {"d": 360, "z": 120, "s": 90, "c": 90} if run.tier == "quick" else {"d": 6000, "z": 3000, "s": 1500, "c": 1500}
    scen = {ty: [F.lifecycle_scenario(g, "C19-life-%05d-%s" % (i, ty), ty, lives[(i * 7 + k) % len(lives)]) for i in range(cnt)] for k, (ty, cnt) in enumerate(plan.items())}
    pref = ["C19."]
    # ledger discipline (V0: ledger, red zones, poisoned fresh blocks)
    run.conform("life", scen, pref, tv_env={"MODE": "light"})
    # the same lifecycles and the factor / storage families under ASan + UBSan (observer)
    types = {"d": 0.85, "z": 0.45, "s": 0.35, "c": 0.35}
    g2 = Gen(run.seed * 1000 + 191)
    fam2 = merge(F.fam_gssv(g2, "C19", sizes(run, 300, 3000), types), F.fam_gstrf(g2, "C19", sizes(run, 150, 1500), types),
                 F.fam_singular(g2, "C19", sizes(run, 100, 1000), types), F.fam_gssvx(g2, "C19", sizes(run, 200, 2000), types),
                 # singular returns of the expert driver in every type and both storage orientations (their own exit path)
                 F.fam_singular(g2, "C19", sizes(run, 160, 1600), {"d": 1.0, "z": 0.6, "s": 0.6, "c": 0.6}, fn="gssvx"),
                 F.fam_storage(g2, "C19", sizes(run, 40, 300), types), F.fam_storage(g2, "C19", sizes(run, 40, 300), types, fn="gsisx"))
    run.conform("fam_v0", fam2, pref, tv_env={"MODE": "light"})
    run.observers["asan_ubsan"] = {"scenarios": 0}
    half = {ty: lst[: max(1, len(lst) // (2 if run.tier == "quick" else 1))] for ty, lst in scen.items()}
    res = run.conform("life_asan", half, pref, variant="v2", harness_env=SAN_ENV, tv_env={"MODE": "light"})
    res2 = run.conform("fam_asan", fam2, pref, variant="v2", harness_env=SAN_ENV, tv_env={"MODE": "light"})
    # the other entry points of the lifecycles named by the property: orderings, readers, MC64, equilibration, kernels, the
    # incomplete factorization and the Fortran-callable bridge, under the same observer (their own checks hold the ledger
    # clauses; here only memory errors and undefined arithmetic are looked for)
    g3 = Gen(run.seed * 1000 + 192)
    t3 = {"d": 0.85, "z": 0.5, "s": 0.35, "c": 0.35}
    outdir = os.path.join(vlib.WORK, "files_C19")
    fam3 = merge(F.fam_readers(g3, "C19", sizes(run, 120, 1200), t3, outdir), F.fam_order(g3, "C19", sizes(run, 100, 1000)),
                 F.fam_ldperm(g3, "C19", sizes(run, 80, 800), t3), F.fam_equ(g3, "C19", sizes(run, 80, 800), t3),
                 F.fam_kernels(g3, "C19", sizes(run, 60, 600), t3), F.fam_ilu(g3, "C19", sizes(run, 150, 1500), t3),
                 F.fam_cond(g3, "C19", sizes(run, 100, 1000), t3))
    res3 = run.conform("entry_asan", fam3, ["C19.sanitizer", "C19.redzone", "C19.bad_free", "C19.abnormal_end"], variant="v2", harness_env=SAN_ENV, tv_env={"MODE": "light"})
    run.observers["asan_ubsan"]["scenarios"] = sum(len(r["scen"]) for r in res + res2 + res3)
    if run.tier != "quick":
        vg = {"d": scen["d"][:200], "z": scen["z"][:100]}
        run.conform("life_valgrind", vg, pref, wrapper=["valgrind", "-q", "--error-exitcode=96", "--trace-children=yes", "--child-silent-after-fork=no"], timeout=120, tv_env={"MODE": "light"}, nchunks=16)
        run.observers["valgrind"] = {"scenarios": 300}
    return run.finish(rule="TLC-generated API lifecycles (SluLife, length <= 4: fresh / reuse / solve / query / short workspace / failed growth / singular / rejected / destroy) plus the factor, singular, expert-driver and storage families; each under the ledger build and under ASan+UBSan")


def check_C07(run):
    mc_mem(run, thorough_too=False)
    g = Gen(run.seed * 1000 + 7)
    types = QUICK_TYPES if run.tier == "quick" else FULL_TYPES
    scen = merge(F.fam_storage(g, "C07", sizes(run, 100, 600), types), F.fam_storage(g, "C07", sizes(run, 50, 300), types, fn="gsisx"),
                 F.fam_storage_dense(g, "C07", sizes(run, 120, 800), types), F.fam_ilu_sizesweep(g, "C07", sizes(run, 24, 300), {"d": 1.0, "z": 0.6, "s": 0.6, "c": 0.5}),
                 F.fam_ilu_capacity(g, "C07", sizes(run, 100, 1200), {"d": 1.0, "z": 0.5, "s": 0.5, "c": 0.4}))
    # vendor BLAS (the configuration the tests use): bit-for-bit on exact (D2) scenarios, structure always
    run.conform("storage", scen, ["C07."])
    # bundled C BLAS loops: bit-for-bit whatever the data
    g2 = Gen(run.seed * 1000 + 77)
    scen2 = merge(F.fam_storage(g2, "C07", sizes(run, 100, 600), types), F.fam_storage(g2, "C07", sizes(run, 50, 300), types, fn="gsisx"))
    run.conform("storage_cblas", scen2, ["C07."], variant="v1b", tv_env={"MODE": "light", "BITWISE": "all"})
    if run.tier != "quick":
        g3 = Gen(run.seed * 1000 + 78)
        scen3 = F.fam_storage(g3, "C07", 400, types)
        run.conform("storage_i64", scen3, ["C07."], variant="v1", tv_env={"MODE": "light", "BITWISE": "all"})
    return run.finish(rule="per scenario one matrix factored with library allocation (fill 30 reference, fill 1,2,3) and caller workspaces of several sufficient lengths / alignments; all successful runs must agree bit for bit (vendor BLAS: on exact scenarios; bundled BLAS: always)")


def check_C08(run):
    mc_mem(run)
    g = Gen(run.seed * 1000 + 8)
    scen = {}
    if run.tier == "quick":
        scen["d"] = F.fam_sweep(g, "C08", "d", [(3, 1), (4, 2), (5, 4)], (0, 4))
        scen["d"] += F.fam_sweep(g, "C08", "d", [(8, 1)], (0, 4), family="sweepU", arrow=True)
        scen["d"] += F.fam_sweep(g, "C08", "d", [(4, 2)], (0, 4), fn="gsisx")
        scen["z"] = F.fam_sweep(g, "C08", "z", [(3, 2)], (0, 4))
    else:
        for ty in ("d", "s", "z", "c"):
            scen[ty] = F.fam_sweep(g, "C08", ty, [(2, 1), (3, 2), (4, 3), (5, 4), (6, 2), (4, 8)], (0, 4))
            scen[ty] += F.fam_sweep(g, "C08", ty, [(8, 1), (7, 2)], (0, 4), family="sweepU", arrow=True)
            scen[ty] += F.fam_sweep(g, "C08", ty, [(3, 1), (4, 2), (5, 4)], (0, 4), fn="gsisx")
    run.conform("sweep", scen, ["C08.", "C07."], timeout=5, tv_env={"MODE": "light"})
    # tall matrices through the factor routine itself (the drivers take square systems only): outcome judged numerically
    gt = Gen(run.seed * 1000 + 81)
    if run.tier == "quick":
        scent = {"d": F.fam_sweep_tall(gt, "C08", "d", [(7, 4, 2), (9, 5, 1)], (0, 4)), "z": F.fam_sweep_tall(gt, "C08", "z", [(6, 3, 2)], (0,)),
                 "s": F.fam_sweep_tall(gt, "C08", "s", [(8, 5, 2)], (4,)), "c": F.fam_sweep_tall(gt, "C08", "c", [(6, 4, 1)], (0,))}
    else:
        scent = {ty: F.fam_sweep_tall(gt, "C08", ty, [(7, 4, 2), (9, 5, 1), (6, 3, 3), (12, 8, 2), (5, 4, 4)], (0, 4), step=4) for ty in ("d", "s", "z", "c")}
    run.conform("sweep_tall", scent, ["C08.", "C02.", "C03."], timeout=5)
    # refactorization (factors already inside the buffer) with every shorter length of the same buffer; the outcome of a
    # successful call is judged numerically (C02 / C05 clauses), so no light mode here
    gr = Gen(run.seed * 1000 + 82)
    if run.tier == "quick":
        scenr = {"d": F.fam_sweep_reuse(gr, "C08", "d", [(4, 2)], step=8)}
    else:
        scenr = {ty: F.fam_sweep_reuse(gr, "C08", ty, [(3, 1), (4, 2), (5, 3)]) for ty in ("d", "s", "z", "c")}
    run.conform("sweep_reuse", scenr, ["C08.", "C02.", "C05.", "C03."], timeout=5)
    # 64-bit index build with the bundled BLAS (value word smaller than the index word for single precision)
    g64 = Gen(run.seed * 1000 + 864)
    if run.tier == "quick":
        scen64 = {"s": F.fam_sweep(g64, "C08", "s", [(3, 1)], (0, 4)) + F.fam_sweep(g64, "C08", "s", [(8, 1)], (0, 4), family="sweepU", arrow=True)}
    else:
        scen64 = {ty: F.fam_sweep(g64, "C08", ty, [(3, 1), (4, 2), (5, 4)], (0, 4)) + F.fam_sweep(g64, "C08", ty, [(8, 1)], (0, 4), family="sweepU", arrow=True) for ty in ("s", "d", "z", "c")}
    run.conform("sweep_i64", scen64, ["C08.", "C07."], variant="v1", timeout=5, tv_env={"MODE": "light", "BITWISE": "all"})
    # size query: lwork = -1 changes nothing but info / mem_usage
    gq = Gen(run.seed * 1000 + 88)
    types = QUICK_TYPES if run.tier == "quick" else FULL_TYPES
    run.conform("query", F.fam_query(gq, "C08", sizes(run, 200, 2000), types), ["C08.", "C19.leak"], tv_env={"MODE": "light"})      # a query retains nothing either
    # library allocation: every failure position among the allocation requests of a factorization
    gf = Gen(run.seed * 1000 + 89)
    run.conform("failpos", F.fam_failpos(gf, "C08", sizes(run, 12, 60), types), ["C08."], timeout=5, tv_env={"MODE": "light"})
    return run.finish(rule="every workspace length in steps of one word up to beyond the requirement x both alignments for small systems with fill estimates 1..8 (LU and ILU); size queries; every allocation-failure position under library allocation")


def replay(run, path):
    meta = json.load(open(os.path.join(path, "meta.json")))
    scen = []
    cur = None
    for ln in open(os.path.join(path, "scenario.txt")).read().splitlines():
        if ln.startswith("begin "):
            cur = {"id": ln.split()[1], "lines": []}
        elif ln == "end":
            scen.append(cur)
        else:
            cur["lines"].append(ln)
    run.prefixes = [run.prop + ".", meta.get("key", "?").split("@")[0]]
    # a finding made by an observer build is replayed under that build
    if "sanitizer" in meta.get("key", ""):
        res = vlib.execute(run.prop + "_replay", run.build("v2"), {meta["ty"]: scen}, harness_env=SAN_ENV, tv_env={"MODE": "light"})
    else:
        res = vlib.execute(run.prop + "_replay", run.build("v0"), {meta["ty"]: scen})
    cands = run.judge(res)
    import fnmatch
    bad = 0
    for c in cands:
        key = "%s@%s:%s" % (c["clause"], c["fn"], vlib.family_of(c["scenario"]["id"]))
        k = next((k for k in run.known if fnmatch.fnmatchcase(key, k["key"])), None)
        if k:
            print("KNOWN-FINDING: property=%s %s [key %s; %s]" % (run.prop, k["what"], k["key"], c["scenario"]["id"]))
            continue
        bad += 1
        print("REPLAY: %s violates %s" % (c["scenario"]["id"], c["clause"]))
        print("VIOLATION property=%s replay=%s" % (run.prop, path))
    return 1 if bad else 0
