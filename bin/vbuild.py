#!/usr/bin/env python3
"""Build the hooked SuperLU library variants and the harness from /repo's
current working tree.  Output is cached under /verif/.build/<variant>-<hash>,
keyed by a content hash of the sources and flags, so a check pays for a build
only after /repo (or the harness) changed.

  vbuild.py v0 [v1 v2 v3]     -> prints the build directory of each variant
"""
import hashlib, os, subprocess, sys, shutil, glob, time, fcntl

REPO = os.environ.get("VERIF_REPO", "/repo")
VERIF = os.path.dirname(os.path.dirname(os.path.abspath(__file__)))
HARN = os.path.join(VERIF, "harness")
BUILD = os.path.join(VERIF, ".build")

SEAM = ["-include", os.path.join(HARN, "slu_vhooks.h"), "-DSLU_VERIF",
        "-DUSER_MALLOC(s)=slu_vmalloc((s),__FILE__,__LINE__)",
        "-DUSER_FREE(p)=slu_vfree((p),__FILE__,__LINE__)",
        "-DUSER_ABORT(m)=slu_vabort(m)",
        "-DPRNTlevel=0", "-DDEBUGlevel=0", "-w"]

VARIANTS = {
    # name: (cc, cflags, use_vendor_blas, extra defs, link libs)
    "v0": ("gcc", ["-O1", "-g", "-fno-omit-frame-pointer"], True, [], ["-lopenblas", "-lm", "-lpthread"]),
    "v1": ("gcc", ["-O1", "-g"], False, ["-DXSDK_INDEX_SIZE=64"], ["-lm", "-lpthread"]),
    "v1b": ("gcc", ["-O1", "-g"], False, [], ["-lm", "-lpthread"]),   # bundled CBLAS, 32-bit indices
    "v2": ("clang", ["-O1", "-g", "-fno-omit-frame-pointer", "-fsanitize=address,undefined", "-fno-sanitize-recover=undefined", "-DSLU_V_PASSTHRU"], True, [],
           ["-fsanitize=address,undefined", "-lopenblas", "-lm", "-lpthread"]),
    "v3": ("clang", ["-O1", "-g", "-fsanitize=thread", "-DSLU_V_PASSTHRU"], False, [], ["-fsanitize=thread", "-lm", "-lpthread"]),
}
TYPES = ["s", "d", "c", "z"]


def src_files(vendor):
    fs = sorted(glob.glob(os.path.join(REPO, "SRC", "*.c")))
    fs = [f for f in fs if os.path.basename(f) != "sp_ienv.c"]     # tuning seam: harness provides sp_ienv
    fs += sorted(glob.glob(os.path.join(REPO, "FORTRAN", "c_fortran_*.c")))
    fs += sorted(glob.glob(os.path.join(REPO, "EXAMPLE", "?readtriple_noheader.c")))
    if not vendor:
        fs += sorted(glob.glob(os.path.join(REPO, "CBLAS", "*.c")))
    return fs


def content_hash(variant):
    cc, cflags, vendor, defs, libs = VARIANTS[variant]
    h = hashlib.sha256()
    h.update(repr((cc, cflags, vendor, defs, libs, SEAM)).encode())
    fs = src_files(vendor) + sorted(glob.glob(os.path.join(REPO, "SRC", "*.h"))) + sorted(glob.glob(os.path.join(REPO, "CBLAS", "*.h")))
    fs += sorted(glob.glob(os.path.join(HARN, "*.[ch]")))
    for f in fs:
        h.update(f.encode())
        with open(f, "rb") as fh:
            h.update(fh.read())
    return h.hexdigest()[:16]


def run(cmd, **kw):
    r = subprocess.run(cmd, stdout=subprocess.PIPE, stderr=subprocess.STDOUT, text=True, **kw)
    if r.returncode != 0:
        sys.stderr.write("BUILD FAILED: %s\n%s\n" % (" ".join(cmd)[:400], r.stdout[-4000:]))
        raise SystemExit(2)
    return r.stdout


def build(variant, quiet=True):
    os.makedirs(BUILD, exist_ok=True)
    lock = open(os.path.join(BUILD, ".lock"), "w")
    fcntl.flock(lock, fcntl.LOCK_EX)
    try:
        return _build(variant, quiet)
    finally:
        fcntl.flock(lock, fcntl.LOCK_UN)


def _build(variant, quiet):
    cc, cflags, vendor, defs, libs = VARIANTS[variant]
    hsh = content_hash(variant)
    out = os.path.join(BUILD, "%s-%s" % (variant, hsh))
    if os.path.exists(os.path.join(out, "OK")):
        os.utime(out)           # last use (stale builds are pruned by age since last use)
        return out
    # prune stale builds of this variant (keep the few most recent: a concurrent check of another tree may be using one)
    olds = sorted(glob.glob(os.path.join(BUILD, variant + "-*")), key=lambda d: os.path.getmtime(d), reverse=True)
    for d in olds[8:]:
        if time.time() - os.path.getmtime(d) > 6 * 3600:
            shutil.rmtree(d, ignore_errors=True)
    os.makedirs(os.path.join(out, "obj"))
    t0 = time.time()
    inc = ["-I" + os.path.join(REPO, "SRC"), "-I" + HARN]
    flags = cflags + SEAM + defs + (["-DUSE_VENDOR_BLAS"] if vendor else []) + inc
    fs = src_files(vendor)
    # compile in parallel through xargs
    jobs = []
    for f in fs:
        tag = os.path.basename(os.path.dirname(f))
        o = os.path.join(out, "obj", tag + "_" + os.path.basename(f)[:-2] + ".o")
        jobs.append((f, o))
    script = os.path.join(out, "cc.sh")
    with open(script, "w") as fh:
        fh.write("#!/bin/sh\nset -e\n")
        fh.write('exec %s %s -c "$1" -o "$2"\n' % (cc, " ".join("'%s'" % x for x in flags)))
    os.chmod(script, 0o755)
    inp = "".join("%s\n%s\n" % j for j in jobs)
    r = subprocess.run(["xargs", "-P", "16", "-n", "2", script], input=inp, text=True, stdout=subprocess.PIPE, stderr=subprocess.STDOUT)
    if r.returncode != 0:
        sys.stderr.write("BUILD FAILED (%s):\n%s\n" % (variant, r.stdout[-6000:]))
        raise SystemExit(2)
    lib = os.path.join(out, "libsuperlu_v.a")
    run(["ar", "rcs", lib] + [o for _, o in jobs])
    run([cc] + flags + ["-c", os.path.join(HARN, "vhooks.c"), "-o", os.path.join(out, "vhooks.o")])
    # harness executables, one per arithmetic type
    procs = []
    for t in TYPES:
        exe = os.path.join(out, "sluh_" + t)
        cmd = [cc] + flags + ["-DT_" + t.upper(), os.path.join(HARN, "sluh.c"), os.path.join(out, "vhooks.o"), lib] + libs + ["-o", exe]
        procs.append((cmd, subprocess.Popen(cmd, stdout=subprocess.PIPE, stderr=subprocess.STDOUT, text=True)))
        mt = os.path.join(HARN, "sluh_mt.c")
        if os.path.exists(mt) and t in ("d", "z"):
            cmd = [cc] + flags + ["-DT_" + t.upper(), mt, os.path.join(out, "vhooks.o"), lib] + libs + ["-o", os.path.join(out, "sluh_mt_" + t)]
            procs.append((cmd, subprocess.Popen(cmd, stdout=subprocess.PIPE, stderr=subprocess.STDOUT, text=True)))
    for cmd, p in procs:
        o, _ = p.communicate()
        if p.returncode != 0:
            sys.stderr.write("BUILD FAILED: %s\n%s\n" % (" ".join(cmd)[:300], o[-6000:]))
            raise SystemExit(2)
    shutil.rmtree(os.path.join(out, "obj"), ignore_errors=True)
    with open(os.path.join(out, "OK"), "w") as fh:
        fh.write("%.1f s\n" % (time.time() - t0))
    if not quiet:
        sys.stderr.write("built %s in %.1f s\n" % (out, time.time() - t0))
    return out


if __name__ == "__main__":
    for v in sys.argv[1:] or ["v0"]:
        print(build(v, quiet=False))
