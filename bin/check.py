#!/usr/bin/env python3
"""check.py <Cxx> [--tier quick|thorough] [--replay <dir>]

Decides one property of /verif/properties.jsonl for /repo's current working
tree: (1) TLC model-checks the specification modules the property lives in,
(2) scenarios (TLC-generated or seeded) are executed by the harness against the
library rebuilt from /repo, (3) every recorded trace is validated by TLC against
spec/SluTrace.tla, (4) inconclusive exact checks are arbitrated by the rational
side evaluator, (5) rejections are re-run once (S1), matched against
known_findings.jsonl, and reported.  Exit 0 / 1 (VIOLATION) / 2 (CHECK-BROKEN)."""
import argparse, json, os, sys, time, traceback

sys.path.insert(0, os.path.dirname(os.path.abspath(__file__)))
import vlib, vbuild, ratcheck  # noqa: E402
from vlib import Broken  # noqa: E402
import families  # noqa: E402

ASSUME = ["IEEE-754 binary32/binary64 arithmetic with round-to-nearest in the library build",
          "TLC 1.8 and the CommunityModules Json reader evaluate the specification correctly",
          "the harness (harness/sluh.c, vhooks.c) reports the library's outputs faithfully",
          "OpenBLAS pinned to one thread"]


class Run:
    def __init__(self, prop, tier, seed):
        self.prop, self.tier, self.seed = prop, tier, seed
        self.t0 = time.time()
        self.mc = []                 # model-checking runs
        self.model_viol = []
        self.exec_stats = []         # trace validation TLC stats
        self.scenarios = 0
        self.accepted = 0
        self.cov = {}
        self.samples = []
        self.viol = []               # confirmed, unlisted
        self.known_hit = {}
        self.notes = []
        self.side = {"evaluations": 0, "max_factor_ratio": 0.0, "max_residual_ratio": 0.0}
        self.families = {}
        self.known = [k for k in vlib.load_known() if (k.get("property") == prop or prop in k.get("also", [])) and k.get("status") == "open"]
        self.builds = {}
        self.observers = {}

    def build(self, variant="v0"):
        if variant not in self.builds:
            self.builds[variant] = vbuild.build(variant)
        return self.builds[variant]

    # ---- TLC model checking of the specification itself
    def model_check(self, name, module, cfg, expect_violation=False, **kw):
        r = vlib.model_check(self.prop + "_" + name, module, cfg, **kw)
        if expect_violation:
            # demonstration run on the pre-fix model: the violation is the expected outcome and is only recorded
            self.mc.append({"name": name, "module": module, "cfg": cfg, "states": r["states"], "distinct": r["distinct"], "depth": r["depth"],
                            "wall_s": r["wall_s"], "expected_violation": r.get("violation"), "coverage": {}})
            if r["ok"]:
                self.notes.append("model check %s was expected to exhibit the pre-fix violation but passed" % name)
            return r
        self.mc.append({k: r[k] for k in ("name", "module", "cfg", "states", "distinct", "depth", "wall_s", "ok", "coverage") if k in r})
        if not r["ok"]:
            # the specification's own invariant fails at design level: that is a finding about the model
            # (policy => safety); it is reported through the conformance run that reproduces it on the code.
            self.notes.append("model check %s: invariant %s violated at design level" % (name, r.get("violation")))
            self.mc[-1]["violation"] = r.get("violation")
            self.model_viol.append(name + ":" + str(r.get("violation")))
        return r

    # ---- conformance: run scenario families and judge
    def relevant(self, clause):
        return any(clause.startswith(p) for p in self.prefixes)

    def conform(self, tag, scen_by_type, prefixes, variant="v0", events=0, confirm=True, **kw):
        self.prefixes = prefixes
        results = vlib.execute(self.prop + "_" + tag, self.build(variant), scen_by_type, **kw)
        cands = self.judge(results)
        if cands and confirm:
            # S1: re-run the rejected scenarios from scratch, report only what repeats
            again = {}
            for c in cands:
                again.setdefault(c["ty"], {})[c["scenario"]["id"]] = c["scenario"]
            res2 = vlib.execute(self.prop + "_" + tag + "_rerun", self.build(variant), {t: list(d.values()) for t, d in again.items()}, **kw)
            cands2 = self.judge(res2, count=False)
            keys2 = {(c["scenario"]["id"], c["clause"]) for c in cands2}
            for c in cands:
                if (c["scenario"]["id"], c["clause"]) in keys2:
                    self.report(c)
                else:
                    self.notes.append("rejection of %s (%s) did not repeat on re-run; not reported (S1)" % (c["scenario"]["id"], c["clause"]))
        elif cands:
            for c in cands:
                self.report(c)
        return results

    def judge(self, results, count=True):
        cands = []
        for res in results:
            lines = open(res["trace"]).read().splitlines(keepends=True)
            by_id = {}
            for v in res["verdicts"]:
                by_id.setdefault(v["id"], []).append(v)
            if count:
                self.exec_stats.append(res["stats"])
            for sid, vs in by_id.items():
                scen = res["scen"].get(sid)
                if scen is None:
                    continue
                # vacuity guard: a scenario that ended normally has one return event per call of its script (unless a
                # precondition stopped it: Skip event); otherwise the harness lost an event and nothing was checked
                ncall = sum(1 for ln in scen["lines"] if ln.startswith("call ") and not ln.startswith("call heap"))
                nret = sum(1 for v in vs if v["e"] == "Ret" and v["fn"] != "heap")
                ended_ok = any(v["e"] == "Done" and not any(c.startswith("C19.abnormal_end") for c in v["bad"]) for v in vs)
                skipped = any(v["e"] == "Skip" for v in vs) or any(ln.startswith(("use ", "mark ")) for ln in scen["lines"])
                if ended_ok and not skipped and ncall and (nret == 0 or nret % ncall != 0):      # (solo + threaded run: twice)
                    raise Broken("scenario %s: %d calls in the script but %d return events in the trace %s" % (sid, ncall, nret, res["trace"]))
                bad_here = []
                for v in vs:
                    for cl in v["bad"]:
                        if self.relevant(cl) or cl.startswith("C19.abnormal_end"):
                            if cl == "C19.abnormal_end_sanitizer":
                                cl = "C19.sanitizer_" + self.san_summary(res, lines[v["line"] - 1])
                            bad_here.append((cl, v))
                    arb = [cl for cl in v["arb"] if self.relevant(cl)]
                    if arb:
                        ev = json.loads(lines[v["line"] - 1])
                        r = ratcheck.check_line(ev)
                        if count:
                            self.side["evaluations"] += 1
                            self.side["max_factor_ratio"] = max(self.side["max_factor_ratio"], r.get("factor_ratio") or 0.0)
                            self.side["max_residual_ratio"] = max(self.side["max_residual_ratio"], r.get("residual_ratio") or 0.0)
                            for kk in ("berr_checked", "rpg_checked", "ilu_solve_checked"):
                                if r.get(kk):
                                    self.side[kk] = self.side.get(kk, 0) + 1
                            if r.get("berr_dev_in_eps") is not None:
                                self.side["max_berr_deviation_in_eps"] = max(self.side.get("max_berr_deviation_in_eps", 0.0), r["berr_dev_in_eps"])
                        for cl in r["bad"]:
                            if self.relevant(cl):
                                bad_here.append((cl, v))
                    if count:
                        for cflag in v["cov"]:
                            self.cov[cflag] = self.cov.get(cflag, 0) + 1
                if count:
                    self.scenarios += 1
                    fam = vlib.family_of(sid)
                    self.families[fam] = self.families.get(fam, 0) + 1
                    if not bad_here:
                        self.accepted += 1
                    if len(self.samples) < 4 and not bad_here:
                        self.samples.append({"scenario": sid, "script": scen["lines"][:12], "clauses_evaluated": sorted({c for v in vs for c in v["cov"]})})
                seen = set()
                for cl, v in bad_here:
                    if cl in seen:
                        continue
                    seen.add(cl)
                    idx = [i for i, ln in enumerate(lines) if ('"id":"%s"' % sid) in ln]
                    tl = lines[idx[0]:idx[-1] + 1] if idx else []
                    cands.append({"scenario": scen, "clause": cl, "fn": v.get("fn") or v.get("e"), "ty": res["ty"], "trace_lines": tl})
        return cands

    def san_summary(self, res, done_line):
        """kind and function of the sanitizer report of the child that ended this scenario (log_path = <trace>.san.<pid>)"""
        import re as _re, glob as _glob
        try:
            pid = json.loads(done_line).get("pid")
            for f in _glob.glob(res["trace"] + ".san.%s*" % pid):
                txt = open(f, errors="replace").read()
                m = _re.search(r"SUMMARY: \w+Sanitizer: (\S+) (\S+?)(?::\d+)*(?: in (\w+))?", txt)
                if m:
                    return "%s_in_%s" % (m.group(1), m.group(3) or os.path.basename(m.group(2)))
                m = _re.search(r"([\w./-]+):\d+:\d+: runtime error: ([\w -]+)", txt)
                if m:
                    return "ub_%s_in_%s" % (m.group(2).strip().replace(" ", "-")[:30], os.path.basename(m.group(1)))
        except Exception:
            pass
        return "unclassified"

    def report(self, c):
        fam = vlib.family_of(c["scenario"]["id"])
        key = "%s@%s:%s" % (c["clause"], c["fn"], fam)
        import fnmatch
        for k in self.known:
            if fnmatch.fnmatchcase(key, k["key"]):
                h = self.known_hit.setdefault(k["key"], {"what": k["what"], "count": 0, "instances": []})
                h["count"] += 1
                if len(h["instances"]) < 3:
                    h["instances"].append(c["scenario"]["id"])
                return
        d = vlib.make_replay(self.prop, key, c["scenario"], c["trace_lines"], c["ty"], "clause %s violated in scenario %s" % (c["clause"], c["scenario"]["id"]))
        self.viol.append({"key": key, "replay": d, "scenario": c["scenario"]["id"]})

    def finish(self, level="model_checking", rule="", extra_cov=None, exhaustive=False):
        states = sum(m["distinct"] for m in self.mc) + sum(s["distinct"] for s in self.exec_stats)
        trans = sum(m["states"] for m in self.mc) + sum(s["generated"] for s in self.exec_stats)
        nontrivial = sum(v for k, v in self.cov.items() if k.endswith("_exact") or k.endswith("wellformed")) and len([1 for _ in range(self.accepted)])
        cov = {"states": states, "transitions": trans, "traces_validated_against_impl": self.accepted,
               "samples": self.samples or [{"note": "model checking only"}],
               "evaluations": self.scenarios, "distinct_nontrivial": self.accepted,
               "rule": rule, "exhaustive": exhaustive,
               "model_checking_runs": self.mc, "clause_coverage": dict(sorted(self.cov.items())),
               "scenario_families": self.families, "side_evaluator": self.side, "observers": self.observers,
               "known_findings_hit": self.known_hit, "notes": self.notes,
               "trace_validation_runs": len(self.exec_stats)}
        if extra_cov:
            cov.update(extra_cov)
        vlib.write_evidence(self.prop, self.tier, self.seed, level, cov, time.time() - self.t0, len(self.viol), ASSUME)
        for key, k in sorted(self.known_hit.items()):
            print("KNOWN-FINDING: property=%s %s [key %s; %d scenario(s), e.g. %s]" % (self.prop, k["what"], key, k["count"], ",".join(k["instances"])))
        seen = set()
        for v in self.viol:
            if v["key"] in seen:
                continue
            seen.add(v["key"])
            print("VIOLATION property=%s replay=%s  (%s)" % (self.prop, v["replay"], v["key"]))
        print("%s %s: %d scenarios, %d accepted, %d TLC states, %d violation key(s), %d known finding(s), %.0f s" %
              (self.prop, self.tier, self.scenarios, self.accepted, states, len(seen), len(self.known_hit), time.time() - self.t0))
        return 1 if self.viol else 0


def main():
    ap = argparse.ArgumentParser()
    ap.add_argument("prop")
    ap.add_argument("--tier", default=os.environ.get("VERIF_TIER", "quick"))
    ap.add_argument("--replay")
    a = ap.parse_args()
    seed = int(os.environ.get("VERIF_SEED", "1") or 1)
    os.makedirs(vlib.WORK, exist_ok=True)
    import props
    fn = getattr(props, "check_" + a.prop, None)
    if fn is None:
        print("CHECK-BROKEN: no check for %s" % a.prop)
        return 2
    try:
        run = Run(a.prop, a.tier, seed)
        if a.replay:
            return props.replay(run, a.replay)
        return fn(run)
    except Broken as ex:
        print("CHECK-BROKEN: %s" % str(ex)[:4000])
        return 2
    except Exception:
        print("CHECK-BROKEN: internal error\n" + traceback.format_exc())
        return 2


if __name__ == "__main__":
    sys.exit(main())
